// C17 U1 (bounded stand-in, native): ByteRecords + CsvDecoder::decode with the REAL csv_core:
// for every input of <= 5 characters (quick; <= 7 thorough) over {a, b, comma, quote, LF, CR}, every split of the input into two reads, with
// and without `clear_completed()` between the reads (what the reader does when it flushes), and two initial buffer
// capacities (so that buffer growth happens mid-record), the decoded records (fields as bytes) are the same as decoding
// the whole input in one read.  Also: num_records / get_record / field / iter_fields agree with each other.
use super::*;

//@fn decoder.rs CsvDecoder::decode
//@fn decoder.rs ByteRecords::{with_buffer_capacity, clear_completed, clear_all, get_record, num_records, expand_buf, expand_ends}
//@fn decoder.rs ByteRecord::{field, num_fields, iter_fields}

fn snapshot(records: &ByteRecords, into: &mut Vec<Vec<Vec<u8>>>) {
    for i in 0..records.num_records() {
        let rec = records.get_record(i);
        let by_iter: Vec<Vec<u8>> = rec.iter_fields().map(|f| f.to_vec()).collect();
        let by_idx: Vec<Vec<u8>> = (0..rec.num_fields()).map(|j| rec.field(j).unwrap().to_vec()).collect();
        assert!(by_iter == by_idx, "iter_fields and field(i) disagree");
        assert!(rec.field(rec.num_fields()).is_none());
        into.push(by_iter);
    }
}

fn decode_all(chunks: &[&[u8]], cap: usize, clear_between: bool) -> Vec<Vec<Vec<u8>>> {
    let mut decoder = CsvDecoder::new(DialectOptions::default());
    let mut records = ByteRecords::with_buffer_capacity(cap);
    let mut out = Vec::new();
    for chunk in chunks {
        if chunk.is_empty() {
            continue; // an empty read means end of input to csv_core; handled by the final call below
        }
        let _ = decoder.decode(chunk, &mut records);
        if clear_between {
            snapshot(&records, &mut out);
            records.clear_completed();
            assert!(records.num_records() == 0);
        }
    }
    // end of input
    let _ = decoder.decode(&[], &mut records);
    snapshot(&records, &mut out);
    out
}

fn run_split_check(max_len: usize, min_checked: usize) {
    let alphabet = [b'a', b'b', b',', b'"', b'\n', b'\r'];
    let mut inputs: Vec<Vec<u8>> = vec![vec![]];
    let mut frontier: Vec<Vec<u8>> = vec![vec![]];
    for _ in 0..max_len {
        let mut next = Vec::new();
        for w in &frontier {
            for &c in &alphabet {
                let mut x = w.clone();
                x.push(c);
                next.push(x);
            }
        }
        inputs.extend(next.iter().cloned());
        frontier = next;
    }
    let mut checked = 0usize;
    for input in &inputs {
        let reference = decode_all(&[&input[..]], 64, false);
        for cap in [0usize, 3] {
            for k in 0..=input.len() {
                let (a, b) = input.split_at(k);
                for clear in [false, true] {
                    let got = decode_all(&[a, b], cap, clear);
                    assert!(got == reference, "input {:?} split at {k} (buffer capacity {cap}, clear_completed between reads: {clear}): records {:?} != one-shot records {:?}",
                        String::from_utf8_lossy(input), got, reference);
                    checked += 1;
                }
            }
        }
    }
    assert!(checked > min_checked);
}

// quick tier: inputs of <= 5 characters; thorough tier: <= 7 characters
#[test]
fn c17_csv_decoder__split_independent__nat() {
    run_split_check(5, 50_000);
}

#[test]
fn c17_csv_decoder__split_independent_len7__nat__thr() {
    run_split_check(7, 1_000_000);
}

include!("/verif/build/kani-gen/csv_decoder.playback.rs");
