// C03 U5 / C14 U4 (bounded stand-in, native): appending batches to a collection segment stores every input row exactly
// once, in order, whatever the chunk capacity (1..=5) and the sizes of the appended batches (three batches of 0..=11 rows
// each, i.e. every way a batch can be split over 1, 2, 3 or more chunks); relative offsets are prefix sums.
// (Array / buffer-manager construction is out of CBMC's reach; the loop is exercised on the real arrays.)
use super::*;
use crate::arrays::array::Array;
use crate::buffer::buffer_manager::DefaultBufferManager;
use crate::storage::projections::Projections;
use crate::util::iter::TryFromExactSizeIterator;

//@fn arrays/collection/segment.rs ColumnCollectionSegment::{append_batch, finish_append, set_relative_offsets, num_rows}
//@fn arrays/collection/chunk.rs ColumnChunk::{copy_rows, scan}

#[test]
fn c03c14_segment_append__every_row_once_in_order__nat() {
    let types = [DataType::int32()];
    let mut cases = 0usize;
    for cap in 1..=5usize {
        for n1 in 0..=11usize {
            for n2 in [0usize, 1, 4, 7, 11] {
                for n3 in [0usize, 3, 10] {
                    let mut seg = ColumnCollectionSegment::new(cap);
                    let mut expected: Vec<i32> = Vec::new();
                    let mut next = 0i32;
                    for n in [n1, n2, n3] {
                        let vals: Vec<i32> = (0..n as i32).map(|i| next + i).collect();
                        next += n as i32;
                        expected.extend(vals.iter().copied());
                        let batch = Batch::from_arrays([Array::try_from_iter(vals).unwrap()]).unwrap();
                        seg.append_batch(&DefaultBufferManager, &batch, &types).unwrap();
                    }
                    seg.finish_append();
                    seg.set_relative_offsets(0);
                    assert!(seg.num_rows() == expected.len(), "cap={cap} sizes=({n1},{n2},{n3}): row count {} != {}", seg.num_rows(), expected.len());
                    // read everything back, chunk by chunk
                    let proj = Projections::new([0]);
                    let mut got: Vec<i32> = Vec::new();
                    let mut offset = 0usize;
                    for ci in 0..seg.num_chunks() {
                        let chunk = seg.get_chunk(ci).unwrap();
                        assert!(chunk.filled <= chunk.capacity && chunk.capacity == cap);
                        assert!(chunk.relative_offset == offset, "cap={cap} sizes=({n1},{n2},{n3}): relative offset of chunk {ci} is not the prefix sum");
                        offset += chunk.filled;
                        let mut out = Batch::new([DataType::int32()], cap).unwrap();
                        let count = chunk.scan(&proj, &mut out).unwrap();
                        assert!(count == chunk.filled);
                        for r in 0..count {
                            match out.arrays()[0].get_value(r).unwrap() {
                                crate::arrays::scalar::BorrowedScalarValue::Int32(v) => got.push(v),
                                _ => panic!("unexpected value"),
                            }
                        }
                    }
                    assert!(got == expected, "cap={cap} sizes=({n1},{n2},{n3}): stored rows {got:?} != appended rows {expected:?}");
                    cases += 1;
                }
            }
        }
    }
    assert!(cases > 500);
}

include!("/verif/build/kani-gen/collection_segment.playback.rs");
