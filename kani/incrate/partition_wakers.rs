// C04 U4 (bounded: at most 3 partitions): PartitionWakers -- wake_all wakes every stored waker exactly once and
// empties every slot; store overwrites only its own slot; wake(p) touches only slot p.
use super::*;
use std::task::{RawWaker, RawWakerVTable};

//@fn execution/operators/util/partition_wakers.rs PartitionWakers::{init_for_partitions, store, wake, wake_all}

// A waker whose `wake` increments a counter cell; clone shares the cell; drop does nothing.
static VTABLE: RawWakerVTable = RawWakerVTable::new(w_clone, w_wake, w_wake_by_ref, w_drop);
unsafe fn w_clone(p: *const ()) -> RawWaker {
    RawWaker::new(p, &VTABLE)
}
unsafe fn w_wake(p: *const ()) {
    unsafe { *(p as *mut u32) += 1 }
}
unsafe fn w_wake_by_ref(p: *const ()) {
    unsafe { *(p as *mut u32) += 1 }
}
unsafe fn w_drop(_p: *const ()) {}
fn counting_waker(cell: &mut u32) -> Waker {
    unsafe { Waker::from_raw(RawWaker::new(cell as *mut u32 as *const (), &VTABLE)) }
}

#[kani::proof]
#[kani::unwind(5)]
fn c04_partition_wakers__wake_all_exactly_once__bnd() {
    // the partition count is a literal (a symbolic Vec length makes `resize` intractable)
    let n: usize = 3;
    let mut pw = PartitionWakers::empty();
    pw.init_for_partitions(n);
    assert!(pw.wakers.len() == n);
    let mut cells = [0u32; 3];
    let mut stored = [false; 3];
    let mut i = 0;
    while i < 3 {
        if i < n {
            stored[i] = kani::any();
            if stored[i] {
                let w = counting_waker(&mut cells[i]);
                pw.store(&w, i);
                // storing twice must overwrite, not accumulate
                if kani::any() {
                    pw.store(&w, i);
                }
            }
        }
        i += 1;
    }
    kani::cover!(n == 3 && stored[0] && !stored[1] && stored[2]);
    // optional single wake first
    let single: bool = kani::any();
    let sp: usize = kani::any();
    kani::assume(sp < n);
    if single {
        pw.wake(sp);
        assert!(pw.wakers[sp].is_none());
    }
    pw.wake_all();
    let mut i = 0;
    while i < 3 {
        if i < n {
            assert!(pw.wakers[i].is_none(), "a slot still holds a waker after wake_all");
            assert!(cells[i] == (stored[i] as u32), "a stored waker was not woken exactly once (lost or duplicated wake-up)");
        } else {
            assert!(cells[i] == 0);
        }
        i += 1;
    }
}

include!("/verif/build/kani-gen/partition_wakers.playback.rs");
