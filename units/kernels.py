# Route-3 kernel extraction table: hook -> list of closure specs (see extract/gen_kernels.py)
KERNELS = {
    'arith_add': [
        dict(name='add', impl=r'impl<S> ScalarFunction for Add<S>'),
        dict(name='dadd', impl=r'impl<D> ScalarFunction for DecimalAdd<D>'),
    ],
    'arith_sub': [
        dict(name='sub', impl=r'impl<S> ScalarFunction for Sub<S>'),
        dict(name='dsub', impl=r'impl<D> ScalarFunction for DecimalSub<D>'),
    ],
    'arith_mul': [
        dict(name='mul', impl=r'impl<S> ScalarFunction for Mul<S>'),
        dict(name='dmul', impl=r'impl<D> ScalarFunction for DecimalMul<D>'),
        dict(name='imul', impl=r'impl<Rhs, const LHS_RHS_FLIPPED: bool> ScalarFunction for MulInterval'),
    ],
    'arith_div': [
        dict(name='div', impl=r'impl<S> ScalarFunction for Div<S>'),
    ],
    'arith_rem': [
        dict(name='rem', impl=r'impl<S> ScalarFunction for Rem<S>'),
    ],
    'comparison': [
        dict(name='flat_cmp', impl=r'impl<O, S> ScalarFunction for FlatComparison<O, S>'),
        dict(name='dec_cmp', impl=r'impl<O, D> ScalarFunction for DecimalComparison<O, D>'),
    ],
}
