// C03 (bounded stand-in, native): a table scan must not hand an operator more rows than its batch can hold ("any batch
// size (1-8192) gives the same rows").  `ConcurrentColumnCollection::scan` returns whole stored chunks whatever the
// capacity of the output batch (the code's own TODO: "Scanning doesn't properly take into account the output batch
// size"), so after `SET batch_size TO 16` a scan of a table whose chunks hold more than 16 rows feeds 100-row batches
// to operators that sized their buffers for 16 and the query aborts with an index-out-of-bounds panic:
//   SET partitions TO 2; CREATE TEMP TABLE t AS SELECT * FROM generate_series(1,100) g(a);
//   SET batch_size TO 16; SELECT count(*), sum(a) FROM t WHERE a % 3 = 0;
// Contract checked here: every call returns at most `output.write_capacity()` rows, and all calls together every row once.
// The first part is a recorded finding (known_findings.json); the second part must hold.
use super::*;
use crate::arrays::array::Array;
use crate::arrays::scalar::BorrowedScalarValue;
use crate::util::iter::TryFromExactSizeIterator;

//@fn arrays/collection/concurrent.rs ConcurrentColumnCollection::{append_batch, flush, scan}

#[test]
fn c03_table_scan__rows_within_output_capacity__nat() {
    let mut over: Vec<String> = Vec::new();
    for (chunk_capacity, rows, out_capacity) in [(16usize, 40usize, 16usize), (16, 40, 4), (64, 100, 16), (8, 8, 8), (8, 30, 16)] {
        let collection = ConcurrentColumnCollection::new([DataType::int32()], 16, chunk_capacity);
        let mut append = collection.init_append_state();
        let vals: Vec<i32> = (0..rows as i32).collect();
        let input = Batch::from_arrays([Array::try_from_iter(vals.clone()).unwrap()]).unwrap();
        collection.append_batch(&mut append, &input).unwrap();
        collection.flush(&mut append).unwrap();
        let projections = Projections::new([0]);
        let mut scan = collection.init_scan_state();
        let mut got: Vec<i32> = Vec::new();
        loop {
            let mut out = Batch::new([DataType::int32()], out_capacity).unwrap();
            let n = collection.scan(&projections, &mut scan, &mut out).unwrap();
            if n == 0 {
                break;
            }
            if n > out_capacity {
                over.push(format!("{n} rows into a batch of capacity {out_capacity} (chunk capacity {chunk_capacity})"));
            }
            for r in 0..n {
                match out.arrays[0].get_value(r).unwrap() {
                    BorrowedScalarValue::Int32(v) => got.push(v),
                    other => panic!("unexpected value {other:?}"),
                }
            }
        }
        assert!(got == vals, "table scan (chunk capacity {chunk_capacity}, output capacity {out_capacity}) returns {got:?}, stored rows are {vals:?}");
    }
    if !over.is_empty() {
        panic!("KNOWN-SHAPE table scan ignores the output batch capacity: {} scans returned more rows than the batch holds; first: {}", over.len(), over[0]);
    }
}

include!("/verif/build/kani-gen/collection_concurrent.playback.rs");
