// C05 U5 (bounded stand-in, native): the scalar executors every closure-kernel unit relies on.  With an injective
// test closure, for inputs in every layout (flat, dictionary-selected with reordering / repetition, constant, constant
// NULL) and arbitrary validity:   out[i] is valid  <=>  every input is valid at logical row i,   and then
// out[i] == f(inputs at logical row i);   invalid rows never reach the closure.
// (The symbolic version exceeds CBMC: Array construction + downcasts did not finish in 15 minutes.)
use super::*;
use crate::arrays::array::Array;
use crate::arrays::array::physical_type::PhysicalI64;
use crate::arrays::batch::Batch;
use crate::arrays::datatype::DataType;
use crate::arrays::executor::OutBuffer;
use crate::arrays::scalar::BorrowedScalarValue;
use crate::buffer::buffer_manager::DefaultBufferManager;
use crate::util::iter::TryFromExactSizeIterator;

//@fn arrays/executor/scalar/unary.rs UnaryExecutor::execute
//@fn arrays/executor/scalar/binary.rs BinaryExecutor::execute
//@fn arrays/executor/scalar/ternary.rs TernaryExecutor::execute
//@fn arrays/executor/scalar/uniform.rs UniformExecutor::execute

fn variants(seed: i64, n: usize) -> Vec<(String, Array)> {
    // logical length n in every variant
    let base: Vec<Option<i64>> = (0..6).map(|i| if (i + seed) % 3 == 0 { None } else { Some(seed * 100 + i) }).collect();
    let mut out = Vec::new();
    if n == 6 {
        out.push(("flat".to_string(), Array::try_from_iter(base.clone()).unwrap()));
    }
    let sels: Vec<Vec<usize>> = vec![(0..n).map(|i| (5 * i + 1) % 6).collect(), (0..n).map(|i| (i / 2) % 6).collect(), (0..n).rev().map(|i| i % 6).collect()];
    for sel in sels {
        let mut a = Array::try_from_iter(base.clone()).unwrap();
        a.select(&DefaultBufferManager, sel.clone()).unwrap();
        out.push((format!("selected {sel:?}"), a));
    }
    out.push(("constant".to_string(), Array::new_constant(&DefaultBufferManager, &BorrowedScalarValue::Int64(seed * 7 + 1), n).unwrap()));
    out.push(("constant NULL".to_string(), Array::new_null(&DefaultBufferManager, DataType::int64(), n).unwrap()));
    out
}

fn logical(arr: &Array) -> Vec<Option<i64>> {
    (0..arr.logical_len())
        .map(|i| {
            let v = arr.get_value(i).unwrap();
            match v {
                BorrowedScalarValue::Null => None,
                BorrowedScalarValue::Int64(x) => Some(x),
                _ => panic!("unexpected value"),
            }
        })
        .collect()
}

#[test]
fn c05_executors__null_propagation_all_layouts__nat() {
    for n in [6usize, 4, 1] {
        // unary
        for (la, a) in variants(1, n) {
            let va = logical(&a);
            let mut out = Array::new(&DefaultBufferManager, DataType::int64(), n).unwrap();
            let mut calls = 0usize;
            UnaryExecutor::execute::<PhysicalI64, PhysicalI64, _>(&a, 0..n, OutBuffer::from_array(&mut out).unwrap(), |&x, buf| {
                calls += 1;
                buf.put(&(3 * x + 1))
            })
            .unwrap();
            let got = logical(&out);
            for i in 0..n {
                assert!(got[i] == va[i].map(|x| 3 * x + 1), "unary on {la}, row {i}: {:?} -> {:?}", va[i], got[i]);
            }
            assert!(calls == va.iter().filter(|v| v.is_some()).count(), "unary on {la}: closure called for a NULL row or skipped a valid one");
        }
        // binary
        for (la, a) in variants(1, n) {
            for (lb, b) in variants(2, n) {
                let (va, vb) = (logical(&a), logical(&b));
                let mut out = Array::new(&DefaultBufferManager, DataType::int64(), n).unwrap();
                BinaryExecutor::execute::<PhysicalI64, PhysicalI64, PhysicalI64, _>(&a, 0..n, &b, 0..n, OutBuffer::from_array(&mut out).unwrap(), |&x, &y, buf| {
                    buf.put(&(x * 1_000_003 + y))
                })
                .unwrap();
                let got = logical(&out);
                for i in 0..n {
                    let expect = match (va[i], vb[i]) {
                        (Some(x), Some(y)) => Some(x * 1_000_003 + y),
                        _ => None,
                    };
                    assert!(got[i] == expect, "binary on ({la}, {lb}), row {i}: ({:?}, {:?}) -> {:?}", va[i], vb[i], got[i]);
                }
            }
        }
        // ternary + uniform
        for (la, mut a) in variants(1, n) {
            for (lb, mut b) in variants(2, n) {
                for (lc, mut c) in variants(3, n) {
                    let (va, vb, vc) = (logical(&a), logical(&b), logical(&c));
                    let mut out = Array::new(&DefaultBufferManager, DataType::int64(), n).unwrap();
                    TernaryExecutor::execute::<PhysicalI64, PhysicalI64, PhysicalI64, PhysicalI64, _>(
                        &a, 0..n, &b, 0..n, &c, 0..n, OutBuffer::from_array(&mut out).unwrap(),
                        |&x, &y, &z, buf| buf.put(&(x * 1_000_003 + y * 1009 + z)),
                    )
                    .unwrap();
                    let got = logical(&out);
                    let mut out2 = Array::new(&DefaultBufferManager, DataType::int64(), n).unwrap();
                    let arrs = [a.clone().unwrap(), b.clone().unwrap(), c.clone().unwrap()];
                    UniformExecutor::execute::<PhysicalI64, PhysicalI64, _>(&arrs, 0..n, OutBuffer::from_array(&mut out2).unwrap(), |xs, buf| {
                        buf.put(&(*xs[0] * 1_000_003 + *xs[1] * 1009 + *xs[2]))
                    })
                    .unwrap();
                    let got2 = logical(&out2);
                    for i in 0..n {
                        let expect = match (va[i], vb[i], vc[i]) {
                            (Some(x), Some(y), Some(z)) => Some(x * 1_000_003 + y * 1009 + z),
                            _ => None,
                        };
                        assert!(got[i] == expect, "ternary on ({la}, {lb}, {lc}), row {i}: -> {:?}, expected {:?}", got[i], expect);
                        assert!(got2[i] == expect, "uniform on ({la}, {lb}, {lc}), row {i}: -> {:?}, expected {:?}", got2[i], expect);
                    }
                }
            }
        }
    }
}

include!("/verif/build/kani-gen/executors.playback.rs");
