// C11 (bounded stand-in, native; NOT a proof): glob expansion for multi-file scans (`GlobHandle::poll_expand`) against
// the DEFINITION of a glob, on the real traversal code over an in-memory directory tree.
//   trees     every subset of the 9 files  x.csv y.csv a/x.csv a/y.csv a/a/x.csv a/a/y.csv a/b/x.csv b/x.csv b/a/x.csv
//             under the root `r` (a directory exists iff it holds a file), plus an always-present empty directory `r/e`
//   globs     r/*  r/*.csv  r/x.csv  r/*/x.csv  r/a/*  r/*/*  r/*/*/*.csv  r/**  r/a/**  r/*/**  r/**/x.csv  r/a/**/x.csv  r/**/a/*.csv
//   listing   the directory handle returns its entries 1, 2 or 100 at a time (a directory that holds both files and
//             sub-directories is listed in one or in several calls)
// Specification: `*` matches any run of characters inside ONE path component, a literal component matches itself, `**`
// matches zero or more directories (as the last component: every file below); the expansion is the list of FILES whose
// path matches, each exactly ONCE (a multiset: a file returned twice would be scanned twice).
// KNOWN-SHAPE: a `**` that is not the last component never matches zero directories (known finding, see below);
// expansions that differ from the definition ONLY by that are tallied, every other difference is a violation.
use std::collections::{BTreeMap, BTreeSet};

use super::*;
use crate::runtime::filesystem::FileType;

//@fn runtime/filesystem/glob.rs GlobHandle::poll_expand

#[derive(Debug, Clone)]
struct MemDir {
    tree: std::sync::Arc<BTreeSet<String>>, // all file paths (relative to the root, '/' separated, incl. the root dir name)
    dirs: std::sync::Arc<BTreeSet<String>>,
    at: String,
    pos: usize,
    chunk: usize,
}

impl MemDir {
    fn entries(&self) -> Vec<DirEntry> {
        let prefix = format!("{}/", self.at);
        let mut out: BTreeMap<String, FileType> = BTreeMap::new();
        for f in self.tree.iter() {
            if let Some(rest) = f.strip_prefix(&prefix) {
                if !rest.contains('/') {
                    out.insert(f.clone(), FileType::File);
                }
            }
        }
        for d in self.dirs.iter() {
            if let Some(rest) = d.strip_prefix(&prefix) {
                if !rest.is_empty() && !rest.contains('/') {
                    out.insert(d.clone(), FileType::Directory);
                }
            }
        }
        out.into_iter().map(|(p, t)| DirEntry::new(p, t)).collect()
    }
}

impl ReadDirHandle for MemDir {
    fn poll_list(&mut self, _cx: &mut Context, ents: &mut Vec<DirEntry>) -> Poll<Result<usize>> {
        let all = self.entries();
        let n = self.chunk.min(all.len() - self.pos.min(all.len()));
        for e in all.into_iter().skip(self.pos).take(n) {
            ents.push(e);
        }
        self.pos += n;
        Poll::Ready(Ok(n))
    }

    fn change_dir(&mut self, relative: impl Into<String>) -> Result<Self> {
        let rel: String = relative.into();
        Ok(MemDir { tree: self.tree.clone(), dirs: self.dirs.clone(), at: format!("{}/{}", self.at, rel), pos: 0, chunk: self.chunk })
    }
}

fn seg_match(pat: &str, name: &str) -> bool {
    // `*` = any run of characters, everything else literal
    let parts: Vec<&str> = pat.split('*').collect();
    if parts.len() == 1 {
        return pat == name;
    }
    let mut rest = name;
    for (i, p) in parts.iter().enumerate() {
        if i == 0 {
            if !rest.starts_with(p) {
                return false;
            }
            rest = &rest[p.len()..];
        } else if i == parts.len() - 1 {
            return rest.ends_with(p);
        } else {
            match rest.find(p) {
                Some(k) => rest = &rest[k + p.len()..],
                None => return false,
            }
        }
    }
    true
}

/// `min_dirs` = 0: the definition (`**` matches zero or more directories); 1: the known deviation (see below)
fn glob_match(segs: &[&str], comps: &[&str], min_dirs: usize) -> bool {
    match segs.split_first() {
        None => comps.is_empty(),
        Some((&"**", tail)) => {
            if tail.is_empty() {
                !comps.is_empty()
            } else {
                (0..comps.len()).filter(|k| *k >= min_dirs).any(|k| glob_match(tail, &comps[k..], min_dirs))
            }
        }
        Some((s, tail)) => !comps.is_empty() && seg_match(s, comps[0]) && glob_match(tail, &comps[1..], min_dirs),
    }
}

fn expand(tree: &BTreeSet<String>, dirs: &BTreeSet<String>, segs: &[&str], chunk: usize) -> Result<Vec<String>> {
    let mut matchers = Vec::new();
    for seg in segs {
        // as in `GlobHandle::open`
        if is_glob(seg) {
            matchers.push(Some(GlobBuilder::new(seg).literal_separator(true).build().context("Failed to build glob for segment")?.compile_matcher()));
        } else {
            matchers.push(None);
        }
    }
    let root = MemDir { tree: std::sync::Arc::new(tree.clone()), dirs: std::sync::Arc::new(dirs.clone()), at: "r".to_string(), pos: 0, chunk };
    let mut h = GlobHandle { segments: segs.iter().map(|s| s.to_string()).collect(), matchers, stack: vec![(root, 0)], buf: Vec::new() };
    let mut out = Vec::new();
    let mut polls = 0;
    loop {
        match h.poll_expand(&mut crate::util::task::noop_context(), &mut out) {
            Poll::Ready(Ok(0)) => return Ok(out),
            Poll::Ready(Ok(_)) => (),
            Poll::Ready(Err(e)) => return Err(e),
            Poll::Pending => panic!("in-memory directory returned Pending"),
        }
        polls += 1;
        assert!(polls < 10_000, "glob expansion does not terminate");
    }
}

#[test]
fn c11_glob__expansion_is_the_matching_files_each_once__nat() {
    let universe = ["r/x.csv", "r/y.csv", "r/a/x.csv", "r/a/y.csv", "r/a/a/x.csv", "r/a/a/y.csv", "r/a/b/x.csv", "r/b/x.csv", "r/b/a/x.csv"];
    let globs: [&[&str]; 13] = [
        &["*"],
        &["*.csv"],
        &["x.csv"],
        &["*", "x.csv"],
        &["a", "*"],
        &["*", "*"],
        &["*", "*", "*.csv"],
        &["**"],
        &["a", "**"],
        &["*", "**"],
        &["**", "x.csv"],
        &["a", "**", "x.csv"],
        &["**", "a", "*.csv"],
    ];
    let mut cases = 0usize;
    let mut known = 0usize;
    let mut first_known: Option<String> = None;
    for mask in 0..(1u32 << universe.len()) {
        let tree: BTreeSet<String> = universe.iter().enumerate().filter(|(i, _)| mask & (1 << i) != 0).map(|(_, f)| f.to_string()).collect();
        let mut dirs: BTreeSet<String> = BTreeSet::from(["r/e".to_string()]);
        for f in &tree {
            let comps: Vec<&str> = f.split('/').collect();
            for k in 2..comps.len() {
                dirs.insert(comps[..k].join("/"));
            }
        }
        for segs in globs {
            let matching = |min_dirs: usize| -> Vec<String> {
                let mut v: Vec<String> = tree.iter().filter(|f| glob_match(segs, &f.split('/').skip(1).collect::<Vec<_>>(), min_dirs)).cloned().collect();
                v.sort();
                v
            };
            let want = matching(0);
            // known deviation, keyed to its input class: a `**` that is not the last component does not match ZERO
            // directories (the code's own TODO; the repository's GCS tests expect it)
            let want_known = matching(1);
            for chunk in [1usize, 2, 100] {
                let mut got = match expand(&tree, &dirs, segs, chunk) {
                    Ok(g) => g,
                    Err(e) => panic!("expanding r/{} failed on {tree:?}: {}", segs.join("/"), e.to_string().lines().next().unwrap_or("")),
                };
                got.sort();
                if want_known != want && got == want_known {
                    known += 1;
                    if first_known.is_none() {
                        first_known = Some(format!("r/{} over {tree:?} expands to {got:?}, the matching files are {want:?}", segs.join("/")));
                    }
                    cases += 1;
                    continue;
                }
                assert!(
                    got == want,
                    "glob r/{} over the files {tree:?} (directory entries listed {chunk} at a time) expands to {got:?}; the matching files, each once, are {want:?}",
                    segs.join("/")
                );
                cases += 1;
            }
        }
    }
    assert!(cases == 512 * 13 * 3);
    if known > 0 {
        panic!(
            "KNOWN-SHAPE glob `**` does not match zero directories: {known} of {cases} expansions miss the files directly inside the directory the `**` starts in; first: {}",
            first_known.unwrap()
        );
    }
}
