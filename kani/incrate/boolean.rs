// C05 U1(a): two-valued part of AND / OR (closure kernels).  The NULL rows of the SQL truth table
// are decided by which executor And::execute picks, not by these closures: see c05_native_* below.
use super::*;
use crate::verif_kani::with_put1;
include!("/verif/build/kani-gen/boolean.kernels.rs");

//@fn functions/scalar/builtin/boolean.rs closures of And::execute (1-ary, 2-ary, n-ary arms)
//@fn functions/scalar/builtin/boolean.rs closures of Or::execute (1-ary, 2-ary, n-ary arms)

#[kani::proof]
fn c05_and_kernels__def() {
    let a: bool = kani::any();
    let b: bool = kani::any();
    let c: bool = kani::any();
    kani::cover!(a && b && c);
    let (v, ok) = with_put1!(bool, false, |buf| k_and1(&a, buf));
    assert!(ok && v == a);
    let (v, ok) = with_put1!(bool, false, |buf| k_and2(&a, &b, buf));
    assert!(ok && v == (a & b), "2-ary AND");
    let xs = [&a, &b, &c];
    let (v, ok) = with_put1!(bool, false, |buf| k_andn(&xs[..], buf));
    assert!(ok && v == (a & b & c), "n-ary AND");
}

#[kani::proof]
fn c05_or_kernels__def() {
    let a: bool = kani::any();
    let b: bool = kani::any();
    let c: bool = kani::any();
    kani::cover!(!a && !b && !c);
    let (v, ok) = with_put1!(bool, false, |buf| k_or1(&a, buf));
    assert!(ok && v == a);
    let (v, ok) = with_put1!(bool, false, |buf| k_or2(&a, &b, buf));
    assert!(ok && v == (a | b), "2-ary OR");
    let xs = [&a, &b, &c];
    let (v, ok) = with_put1!(bool, false, |buf| k_orn(&xs[..], buf));
    assert!(ok && v == (a | b | c), "n-ary OR");
}

// C05 U1(c) -- bounded stand-in, native: the FULL path And::execute / Or::execute on real arrays, every combination of
// TRUE / FALSE / NULL for 1, 2 and 3 arguments, flat and constant layouts, against SQL's three-valued truth table.
// (The symbolic full-path harness exceeds CBMC's reach: Array construction + executor did not finish in 15 minutes.)
fn and3(xs: &[Option<bool>]) -> Option<bool> {
    if xs.iter().any(|x| *x == Some(false)) {
        Some(false)
    } else if xs.iter().any(|x| x.is_none()) {
        None
    } else {
        Some(true)
    }
}
fn or3(xs: &[Option<bool>]) -> Option<bool> {
    if xs.iter().any(|x| *x == Some(true)) {
        Some(true)
    } else if xs.iter().any(|x| x.is_none()) {
        None
    } else {
        Some(false)
    }
}

fn truth_table(arity: usize, constant_first: Option<Option<bool>>) {
    use crate::arrays::scalar::ScalarValue;
    use crate::buffer::buffer_manager::DefaultBufferManager;
    use crate::util::iter::TryFromExactSizeIterator;
    let vals = [Some(true), Some(false), None];
    // all rows of the truth table in one batch
    let rows = 3usize.pow(arity as u32);
    let mut cols: Vec<Vec<Option<bool>>> = vec![Vec::new(); arity];
    for r in 0..rows {
        let mut k = r;
        for c in 0..arity {
            cols[c].push(vals[k % 3]);
            k /= 3;
        }
    }
    if let Some(cv) = constant_first {
        cols[0] = vec![cv; rows];
    }
    let mut arrays = Vec::new();
    for (c, col) in cols.iter().enumerate() {
        if c == 0 && constant_first.is_some() {
            let v = match constant_first.unwrap() {
                Some(b) => ScalarValue::Boolean(b),
                None => ScalarValue::Null,
            };
            let mut arr = Array::new_constant(&DefaultBufferManager, &v, rows).unwrap();
            if constant_first.unwrap().is_none() {
                // a typed NULL constant
                arr = Array::new_null(&DefaultBufferManager, DataType::boolean(), rows).unwrap();
            }
            arrays.push(arr);
        } else {
            arrays.push(Array::try_from_iter(col.clone()).unwrap());
        }
    }
    let batch = Batch::from_arrays(arrays).unwrap();
    for (name, is_and) in [("AND", true), ("OR", false)] {
        let mut out = Array::new(&DefaultBufferManager, DataType::boolean(), rows).unwrap();
        if is_and {
            And::execute(&(), &batch, &mut out).unwrap();
        } else {
            Or::execute(&(), &batch, &mut out).unwrap();
        }
        for r in 0..rows {
            let args: Vec<Option<bool>> = (0..arity).map(|c| cols[c][r]).collect();
            let expected = if is_and { and3(&args) } else { or3(&args) };
            let got = {
                let v = out.get_value(r).unwrap();
                match v {
                    crate::arrays::scalar::BorrowedScalarValue::Null => None,
                    crate::arrays::scalar::BorrowedScalarValue::Boolean(b) => Some(b),
                    _ => panic!("unexpected value"),
                }
            };
            assert!(got == expected, "{name}{args:?} = {got:?}, SQL three-valued logic says {expected:?} (constant first argument: {constant_first:?})");
        }
    }
}

#[test]
fn c05_and_or__three_valued_truth_table__nat() {
    for arity in 1..=3 {
        truth_table(arity, None);
    }
    for cv in [Some(true), Some(false), None] {
        truth_table(2, Some(cv));
        truth_table(3, Some(cv));
    }
}

include!("/verif/build/kani-gen/boolean.playback.rs");
