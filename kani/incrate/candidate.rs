// C05 / C13: implicit narrowing of integer literals during overload resolution (functions/candidate.rs,
// `CandidateSignature::try_refine_literal`).  For EVERY literal value (full i32 / i64 domain) and every target type: a
// refined literal has the target's type and is numerically EQUAL to the literal in the statement text -- a literal that
// does not fit is not refined (the binder then resolves to the wider overload or reports an error), it is never wrapped.
// Loop-free over the full domain: a complete proof.
use super::*;

//@fn functions/candidate.rs CandidateSignature::try_refine_literal

fn check(have: InputDataType, v: i128) {
    let targets = [DataTypeId::Int8, DataTypeId::Int16, DataTypeId::Int32, DataTypeId::Int64, DataTypeId::UInt8, DataTypeId::Float64, DataTypeId::Utf8];
    let mut i = 0;
    while i < targets.len() {
        let want = targets[i];
        match CandidateSignature::try_refine_literal(&have, want) {
            Some((RefinedLiteral::Int8(x), _)) => assert!(want == DataTypeId::Int8 && x as i128 == v, "literal refined to TINYINT changed its value"),
            Some((RefinedLiteral::Int16(x), _)) => assert!(want == DataTypeId::Int16 && x as i128 == v, "literal refined to SMALLINT changed its value"),
            Some((RefinedLiteral::Int32(x), _)) => assert!(want == DataTypeId::Int32 && x as i128 == v, "literal refined to INT changed its value"),
            Some((RefinedLiteral::Int64(x), _)) => assert!(want == DataTypeId::Int64 && x as i128 == v, "literal refined to BIGINT changed its value"),
            None => (),
        }
        i += 1;
    }
    std::mem::forget(have);
}

#[kani::proof]
#[kani::unwind(9)]
fn c05c13_refine_literal_i64__value_preserved() {
    let v: i64 = kani::any();
    kani::cover!(v > i32::MAX as i64);
    kani::cover!(v >= -128 && v <= 127);
    check(InputDataType { datatype: DataType::int64(), literal: InputLiteral::Int64(v) }, v as i128);
}

#[kani::proof]
#[kani::unwind(9)]
fn c05c13_refine_literal_i32__value_preserved() {
    let v: i32 = kani::any();
    kani::cover!(v > i16::MAX as i32);
    kani::cover!(v >= -128 && v <= 127);
    check(InputDataType { datatype: DataType::int32(), literal: InputLiteral::Int32(v) }, v as i128);
}

include!("/verif/build/kani-gen/candidate.playback.rs");
