import glob
import hashlib
import json
import os
import re
import shutil
import subprocess
import sys
import time

VERIF = os.path.dirname(os.path.dirname(os.path.abspath(__file__)))
REPO = os.environ.get('VERIF_REPO', '/repo')
BUILD = os.path.join(VERIF, 'build')
GEN = os.path.join(BUILD, 'kani-gen')
KANI_TARGET = os.path.join(BUILD, 'kani-target')
PLAYBACK_TARGET = os.path.join(BUILD, 'kani-playback-target')
EVID = os.path.join(VERIF, 'evidence')
REPLAY_DIR = os.path.join(EVID, 'replay')

sys.path.insert(0, os.path.join(VERIF, 'extract'))
sys.path.insert(0, os.path.join(VERIF, 'units'))

import rustx  # noqa: E402
import gen_kernels  # noqa: E402
import verus_units  # noqa: E402

ENV = dict(os.environ, CARGO_NET_OFFLINE='true', GOPROXY='off', PIP_NO_INDEX='1')

HARNESS_RE = re.compile(r'\b((?:c\d\d)+_[A-Za-z0-9_]+)\b')

GLOBAL_TRUST = [
    'rustc MIR semantics as modelled by Kani 0.68 / CBMC 6.11 + CaDiCaL (bit-precise machine integers and IEEE floats)',
    'Verus 0.2026.09.13 + Z3 (spec integers mathematical, exec integers machine with overflow obligations)',
    'extractor brace matching (every extracted text is asserted to be a verbatim substring of the /repo file; its SHA-256 is printed)',
]


class Undecided(Exception):
    pass


def log(*a):
    print(*a, flush=True)


def load_hooks():
    return json.load(open(os.path.join(VERIF, 'units', 'hooks.json')))['hooks']


def load_known():
    p = os.path.join(VERIF, 'known_findings.json')
    if not os.path.exists(p):
        return {'findings': [], 'fixed': []}
    return json.load(open(p))


def module_path(hook):
    """crate-relative module path of the file the hook lives in"""
    f = hook['file']
    assert f.endswith('.rs')
    rel = f.split('/src/', 1)[1][:-3]
    parts = rel.split('/')
    if parts[-1] in ('mod', 'lib'):
        parts = parts[:-1]
    return '::'.join(parts + ['verif_kani'])


# ---------------------------------------------------------------------------------------------
# generation
# ---------------------------------------------------------------------------------------------
DISABLED_HOOKS = {}


class CompileError(Exception):
    def __init__(self, msg, logp):
        Exception.__init__(self, msg)
        self.logp = logp


def hooks_named_in_log(logp):
    try:
        txt = open(logp).read()
    except OSError:
        return set()
    return set(re.findall(r'/verif/build/kani-gen/(\w+)\.harness\.rs', txt))


def generate_all(playback=None):
    """(Re)generate kernel files for every hook from /repo's working tree.  Returns kernel metas."""
    import kernels
    os.makedirs(GEN, exist_ok=True)
    metas = []
    hooks = load_hooks()
    for h in hooks:
        path = os.path.join(REPO, h['file'])
        if not os.path.exists(path):
            raise Undecided('hooked file missing: %s' % h['file'])
        txt = open(path).read()
        if ('include!("/verif/build/kani-gen/%s.harness.rs")' % h['hook']) not in txt:
            raise Undecided('hook %s not installed in %s' % (h['hook'], h['file']))
        # per-run copy of the harness file (the hook includes the copy): a harness file that no longer compiles against
        # the changed code can be replaced by a stub for this run without touching the committed harness
        hsrc = os.path.join(VERIF, 'kani', 'incrate', h['hook'] + '.rs')
        hdst = os.path.join(GEN, h['hook'] + '.harness.rs')
        if h['hook'] in DISABLED_HOOKS:
            htxt = '// harness file disabled for this run: %s\n' % DISABLED_HOOKS[h['hook']].replace('\n', ' ')
        else:
            htxt = open(hsrc).read()
        if not os.path.exists(hdst) or open(hdst).read() != htxt:
            open(hdst, 'w').write(htxt)
        specs = kernels.KERNELS.get(h['hook'], [])
        out = os.path.join(GEN, h['hook'] + '.kernels.rs')
        try:
            src = rustx.Src(path)
            chunks = ['// GENERATED from %s by /verif/extract/gen_kernels.py -- do not edit' % h['file']]
            for sp in specs:
                sp = dict(sp, file=h['file'])
                text, meta = gen_kernels.gen_kernel(src, sp)
                if meta['closure'] not in src.text:
                    raise Undecided('extracted closure is not a substring of the source: %s' % sp['name'])
                meta['hook'] = h['hook']
                chunks.append(text)
                metas.append(meta)
        except rustx.ExtractError as e:
            raise Undecided('extraction failed in %s: %s' % (h['file'], e))
        new = '\n\n'.join(chunks) + '\n'
        if not os.path.exists(out) or open(out).read() != new:
            open(out, 'w').write(new)
        pb = os.path.join(GEN, h['hook'] + '.playback.rs')
        pbtxt = (playback or {}).get(h['hook'], '// no playback tests\n')
        if not os.path.exists(pb) or open(pb).read() != pbtxt:
            open(pb, 'w').write(pbtxt)
    return metas


def extra_props():
    """units/extra_props.json: obligation name -> further properties the obligation also counts for (used where the same
    harness discharges a memory-safety obligation of C16 besides its functional one)"""
    p = os.path.join(VERIF, 'units', 'extra_props.json')
    if not os.path.exists(p):
        return {}
    return json.load(open(p))


def discover_harnesses(prop, tier, only=None):
    """scan the committed in-crate harness files; returns list of dicts"""
    res = []
    seen = set()
    tag = prop.lower()
    for h in load_hooks():
        p = os.path.join(VERIF, 'kani', 'incrate', h['hook'] + '.rs')
        if not os.path.exists(p):
            raise Undecided('harness file missing: %s' % p)
        for ln in open(p):
            if ln.lstrip().startswith('//'):
                continue
            for name in HARNESS_RE.findall(ln):
                if name in seen:
                    continue
                prefix = name.split('_', 1)[0]
                props = re.findall(r'c\d\d', prefix) + [p.lower() for p in extra_props().get(name, [])]
                if tag not in props:
                    continue
                flags = name.split('__')[1:]
                if 'thr' in flags and tier != 'thorough':
                    continue
                if only and only not in name:
                    continue
                seen.add(name)
                res.append(dict(name=name, hook=h['hook'], crate=h['crate'], full=module_path(h) + '::' + name,
                                bounded=('bnd' in flags or 'nat' in flags), term=('term' in flags), native=('nat' in flags), flags=flags))
    return res


def fn_contract_meta():
    """`//@fn <file> <item>` lines in harness files -> functions under contract (for evidence)."""
    out = []
    for h in load_hooks():
        p = os.path.join(VERIF, 'kani', 'incrate', h['hook'] + '.rs')
        for ln in open(p):
            mo = re.match(r'\s*//@fn\s+(\S+)\s+(.*)$', ln)
            if mo:
                props = re.findall(r'\[(C\d\d(?:,C\d\d)*)\]', mo.group(2))
                out.append(dict(hook=h['hook'], file=mo.group(1), item=mo.group(2).strip(), src_file=h['file']))
    return out


# ---------------------------------------------------------------------------------------------
# Kani
# ---------------------------------------------------------------------------------------------
KANI_FLAGS = ['-Z', 'function-contracts', '-Z', 'stubbing', '--output-format', 'terse']


def kani_cmd(crate, fulls, jobs, extra=()):
    cmd = ['cargo', 'kani', '-p', crate, '--target-dir', KANI_TARGET] + KANI_FLAGS
    if jobs and jobs > 1:
        cmd += ['-j', str(jobs)]
    cmd += ['--exact']
    for f in fulls:
        cmd += ['--harness', f]
    cmd += list(extra)
    return cmd


def parse_kani(out):
    """returns (results: full -> dict, compile_error: bool)"""
    results = {}
    cur = {}
    lines = out.split('\n')
    i = 0
    block_owner = None
    compile_error = 'error: could not compile' in out or 'Failed to execute cargo' in out or ('Checking harness' not in out and 'error:' in out)
    for ln in lines:
        mo = re.match(r'(?:Thread (\d+): )?Checking harness (\S+?)\.\.\.\s*$', ln)
        if mo:
            th = mo.group(1) or '0'
            cur[th] = mo.group(2)
            results.setdefault(mo.group(2), dict(status='NO_RESULT', failed_checks=[], covers=None, checks=None, time=None, raw=[]))
            if not mo.group(1):
                block_owner = mo.group(2)
            continue
        mo = re.match(r'Thread (\d+):\s*$', ln)
        if mo:
            block_owner = cur.get(mo.group(1))
            continue
        if ln.startswith('Manual Harness Summary') or ln.startswith('Complete - '):
            block_owner = None
            continue
        if block_owner is None:
            continue
        r = results[block_owner]
        r['raw'].append(ln)
        mo = re.match(r' \*\* (\d+) of (\d+) failed', ln)
        if mo:
            r['checks'] = int(mo.group(2))
            r['nfailed'] = int(mo.group(1))
        mo = re.match(r' \*\* (\d+) of (\d+) cover properties satisfied', ln)
        if mo:
            r['covers'] = (int(mo.group(1)), int(mo.group(2)))
        mo = re.match(r'Failed Checks: (.*)$', ln)
        if mo:
            r['failed_checks'].append(mo.group(1).strip())
        mo = re.match(r'VERIFICATION:- (\w+)', ln)
        if mo:
            r['status'] = mo.group(1)
        mo = re.match(r'Verification Time: ([0-9.]+)s', ln)
        if mo:
            r['time'] = float(mo.group(1))
        if 'CBMC timed out' in ln or 'timed out' in ln.lower():
            r['status'] = 'TIMEOUT'
    return results, compile_error


def run_kani(crate, harnesses, jobs, timeout_s, harness_timeout=None, z3=False):
    fulls = [h['full'] for h in harnesses]
    extra = []
    if harness_timeout:
        extra += ['-Z', 'unstable-options', '--harness-timeout', harness_timeout]
    if z3:
        # SMT back end (CBMC --z3): used for harnesses whose SAT encoding needs two divider circuits proved equal.
        # --cbmc-args swallows everything after it, so it goes last.
        extra += ['-Z', 'unstable-options', '--cbmc-args', '--z3']
    cmd = kani_cmd(crate, fulls, jobs, extra)
    t0 = time.time()
    try:
        p = subprocess.run(cmd, cwd=REPO, env=ENV, stdout=subprocess.PIPE, stderr=subprocess.STDOUT, text=True, timeout=timeout_s)
        out = p.stdout
    except subprocess.TimeoutExpired as e:
        out = (e.stdout.decode() if isinstance(e.stdout, bytes) else (e.stdout or '')) + '\n[driver] overall timeout\n'
        subprocess.run(['pkill', '-x', 'cbmc'])
    wall = time.time() - t0
    os.makedirs(os.path.join(BUILD, 'logs'), exist_ok=True)
    logp = os.path.join(BUILD, 'logs', 'kani-%s-%d.log' % (crate, int(t0)))
    open(logp, 'w').write(' '.join(cmd) + '\n' + out)
    results, compile_error = parse_kani(out)
    if compile_error:
        errs = [l for l in out.split('\n') if l.startswith('error')]
        raise CompileError('cargo kani failed to compile %s: %s (log %s)' % (crate, '; '.join(errs[:4]), logp), logp)
    return results, wall, ' '.join(cmd), logp


def kani_playback_print(h):
    """re-run one failed harness with concrete playback; returns (kani_output, [test_src])"""
    extra = ['-Z', 'concrete-playback', '--concrete-playback=print']
    if 'z3' in h.get('flags', []):
        extra += ['-Z', 'unstable-options', '--cbmc-args', '--z3']
    cmd = kani_cmd(h['crate'], [h['full']], 1, extra)
    try:
        p = subprocess.run(cmd, cwd=REPO, env=ENV, stdout=subprocess.PIPE, stderr=subprocess.STDOUT, text=True, timeout=1800)
        out = p.stdout
    except subprocess.TimeoutExpired:
        return '[driver] playback generation timed out', []
    tests = re.findall(r'```\n(.*?)```', out, re.S)
    # drop the doc-comment preamble (a multi-line cover condition is not a valid comment)
    tests = [t[t.index('#[test]'):] for t in tests if '#[test]' in t and 'Check for `cover`' not in t]
    tail = out[out.find('Checking harness'):] if 'Checking harness' in out else out[-4000:]
    return tail, tests


def native_playback(hook_crate, hooks_tests):
    """compile the crate natively (cargo kani playback) with the generated tests; return dict name->outcome"""
    generate_all(playback={k: '\n'.join(v) + '\n' for k, v in hooks_tests.items()})
    env = dict(ENV, CARGO_TARGET_DIR=PLAYBACK_TARGET, RUST_BACKTRACE='0')
    cmd = ['cargo', 'kani', 'playback', '-Z', 'concrete-playback', '-Z', 'function-contracts', '-Z', 'stubbing', '-p', hook_crate, '--lib', '--',
           'kani_concrete_playback', '--test-threads', '1']
    try:
        p = subprocess.run(cmd, cwd=REPO, env=env, stdout=subprocess.PIPE, stderr=subprocess.STDOUT, text=True, timeout=1800)
        out = p.stdout
    except subprocess.TimeoutExpired:
        out = '[driver] native playback timed out'
    finally:
        generate_all()
    outcomes = {}
    for mo in re.finditer(r'^test (\S+) \.\.\. (\w+)', out, re.M):
        outcomes[mo.group(1).split('::')[-1]] = mo.group(2)
    panics = re.findall(r'panicked at ([^\n]*)\n([^\n]*)', out)
    aborted = 'SIGSEGV' in out or 'SIGABRT' in out or 'signal:' in out
    keep = [l for l in out.split('\n') if not l.startswith('warning') and not re.match(r'\s*(\||=|-->|\d+ \|)', l)]
    return dict(outcomes=outcomes, panics=[' '.join(x) for x in panics], aborted=aborted, cmd=' '.join(cmd), output='\n'.join(keep)[-6000:])


def run_native(crate, harnesses, timeout_s=2400, _single=True):
    """Bounded stand-ins: `#[test]` functions inside the hook modules, compiled natively with cfg(kani) by
    `cargo kani playback` and executed on the real code (exhaustive enumeration of a small finite domain)."""
    env = dict(ENV, CARGO_TARGET_DIR=PLAYBACK_TARGET, RUST_BACKTRACE='0')
    cmd = ['cargo', 'kani', 'playback', '-Z', 'concrete-playback', '-Z', 'function-contracts', '-Z', 'stubbing', '-p', crate, '--lib', '--']
    cmd += [h['name'] for h in harnesses] + ['--test-threads', '8' if len(harnesses) > 1 else '1']
    t0 = time.time()
    try:
        p = subprocess.run(cmd, cwd=REPO, env=env, stdout=subprocess.PIPE, stderr=subprocess.STDOUT, text=True, timeout=timeout_s)
        out = p.stdout
    except subprocess.TimeoutExpired as e:
        out = (e.stdout.decode() if isinstance(e.stdout, bytes) else (e.stdout or '')) + '\n[driver] native run timed out\n'
    wall = time.time() - t0
    os.makedirs(os.path.join(BUILD, 'logs'), exist_ok=True)
    logp = os.path.join(BUILD, 'logs', 'native-%s-%d.log' % (crate, int(t0)))
    open(logp, 'w').write(' '.join(cmd) + '\n' + out)
    if 'error: could not compile' in out or ('running ' not in out and 'error' in out):
        errs = [l for l in out.split('\n') if l.startswith('error')]
        raise CompileError('native build of %s failed: %s (log %s)' % (crate, '; '.join(errs[:4]), logp), logp)
    res = {}
    for mo in re.finditer(r'^test (\S+) \.\.\. (\w+)', out, re.M):
        res[mo.group(1).split('::')[-1]] = dict(status=mo.group(2), msg='')
    # The test process may have died (abort / segfault in the code under test, e.g. heap corruption): no result line for
    # the tests that were running.  Re-run every test without a result on its own; a test whose process dies again is a
    # failure of THAT test (the real code crashed on its inputs), the others get their own verdict.
    missing = [h['name'] for h in harnesses if h['name'] not in res or res[h['name']]['status'] not in ('ok', 'FAILED', 'ignored')]
    if missing and _single and 'test result:' not in out.split('running ')[-1]:
        for name in missing:
            r1, _, _, logp1 = run_native(crate, [dict(name=name)], timeout_s=timeout_s, _single=False)
            if name in r1 and r1[name]['status'] in ('ok', 'FAILED', 'ignored'):
                res[name] = r1[name]
            else:
                tail = [l for l in open(logp1).read().split('\n') if l.strip() and not l.startswith('warning')][-6:]
                res[name] = dict(status='FAILED', msg='the test process died while running this test alone (the code under test crashed): ' + ' | '.join(tail)[:1200])
    # failure messages:  ---- path::name stdout ----\n ... panicked at file:line:col:\n<message>
    for mo in re.finditer(r'---- (\S+) stdout ----\n(.*?)(?=\n---- |\nfailures:|\Z)', out, re.S):
        name = mo.group(1).split('::')[-1]
        body = mo.group(2)
        pm = re.search(r'panicked at [^\n]*\n(.*)', body, re.S)
        if name in res:
            res[name]['msg'] = (pm.group(1) if pm else body).strip()[:1500]
    return res, wall, ' '.join(cmd), logp


def concrete_values(test_src):
    vals = []
    for mo in re.finditer(r'//\s*(.*?)\n\s*vec!\[([0-9, ]*)\]', test_src):
        vals.append(dict(shown=mo.group(1).strip(), bytes=[int(x) for x in mo.group(2).replace(' ', '').split(',') if x]))
    return vals


# ---------------------------------------------------------------------------------------------
# property run
# ---------------------------------------------------------------------------------------------
def write_replay(prop, obligation, payload):
    os.makedirs(REPLAY_DIR, exist_ok=True)
    p = os.path.join(REPLAY_DIR, '%s.json' % re.sub(r'[^A-Za-z0-9_.-]', '_', obligation))
    payload = dict(payload, property=prop, obligation=obligation)
    json.dump(payload, open(p, 'w'), indent=1)
    return p


def run_property(prop, tier, only, jobs):
    t0 = time.time()
    seed = int(os.environ.get('VERIF_SEED', '0') or 0)
    known = load_known()
    kf = {}
    for f in known['findings']:
        if prop in f['property'].split(','):
            kf[f['obligation']] = f
    try:
        metas = generate_all()
        harnesses = discover_harnesses(prop, tier, only)
        vunits = verus_units.discover(prop, tier, only)
        if not harnesses and not vunits:
            raise Undecided('no obligations registered for %s' % prop)
        # ----- Kani + native, retried without the harness files that no longer compile against the changed code
        disabled_harnesses = []
        cmds = []
        kani_wall = 0.0
        for attempt in range(4):
            by_crate = {}
            native_by_crate = {}
            for h in harnesses:
                if h['native']:
                    native_by_crate.setdefault(h['crate'], []).append(h)
                else:
                    by_crate.setdefault((h['crate'], 'z3' in h['flags']), []).append(h)
            kres = {}
            nres = {}
            try:
                for (crate, z3), hs in by_crate.items():
                    timeout = 4 * 3600 if tier == 'thorough' else 3600
                    res, wall, cmd, logp = run_kani(crate, hs, jobs, timeout, harness_timeout=os.environ.get('VERIF_HARNESS_TIMEOUT', '30m' if tier == 'thorough' else '20m'), z3=z3)
                    kani_wall += wall
                    cmds.append(cmd if len(cmd) < 400 else cmd[:400] + ' ...')
                    for h in hs:
                        kres[h['name']] = res.get(h['full'], dict(status='NO_RESULT', failed_checks=[], covers=None, checks=None, time=None, raw=[]))
                # ----- native bounded stand-ins
                for crate, hs in native_by_crate.items():
                    res, wall, cmd, logp = run_native(crate, hs)
                    cmds.append(cmd if len(cmd) < 400 else cmd[:400] + ' ...')
                    for h in hs:
                        nres[h['name']] = res.get(h['name'], dict(status='NO_RESULT', msg=''))
                break
            except CompileError as ce:
                bad = hooks_named_in_log(ce.logp) - set(DISABLED_HOOKS)
                if not bad or attempt == 3:
                    raise Undecided(str(ce))
                for hk in sorted(bad):
                    DISABLED_HOOKS[hk] = 'it does not compile against the current /repo tree (%s)' % str(ce)[:300]
                    log('NOTE property=%s harness file %s.rs does not compile against the current tree; its obligations are UNDECIDED, the others are re-run' % (prop, hk))
                disabled_harnesses += [h for h in harnesses if h['hook'] in bad]
                harnesses = [h for h in harnesses if h['hook'] not in bad]
                generate_all()
        # ----- Verus
        vres = verus_units.run_units(vunits, tier)
    except Undecided as e:
        log('UNDECIDED property=%s reason=%s' % (prop, e))
        return 2

    violations = []
    known_hit = []
    undecided = []
    native_viol = []
    soft_undecided = []
    passed = []
    records = []
    for h in disabled_harnesses:
        undecided.append((h['name'], 'harness file %s.rs no longer compiles against the current tree (an item it names was removed or changed)' % h['hook']))
        records.append(dict(obligation=h['name'], engine='not run', harness=h['full'], status='NOT_COMPILED', checks=None, covers=None, time_s=None,
                            bounded=h['bounded'], failed_checks=[], verdict='undecided'))
    # native classification
    for h in harnesses:
        if not h['native']:
            continue
        r = nres[h['name']]
        rec = dict(obligation=h['name'], engine='native exhaustive execution (bounded stand-in)', harness=h['full'], status=r['status'], checks=None,
                   covers=None, time_s=None, bounded=True, failed_checks=[r['msg'][:300]] if r['msg'] else [])
        records.append(rec)
        if r['status'] == 'ok':
            passed.append(h['name'])
            rec['verdict'] = 'discharged'
        elif r['status'] == 'FAILED':
            f = kf.get(h['name'])
            if f and all(any(c in line for c in f['checks']) for line in [r['msg']]):
                known_hit.append((h['name'], f))
                rec['verdict'] = 'known-finding'
            else:
                rec['verdict'] = 'violation'
                pth = write_replay(prop, h['name'], dict(engine='native', harness=h['full'], hook=h['hook'], crate=h['crate'],
                                                         failing_input=r['msg'], note='the test enumerates its finite domain on the real code and panics with the first failing input'))
                native_viol.append('VIOLATION property=%s replay=%s obligation=%s' % (prop, pth, h['name']))
                violations.append((dict(name=h['name'], native_done=True), r, None))
        else:
            undecided.append((h['name'], 'native test status %s' % r['status']))
            rec['verdict'] = 'undecided'
    # Kani classification
    for h in harnesses:
        if h['native']:
            continue
        r = kres[h['name']]
        rec = dict(obligation=h['name'], engine=('kani/cbmc+z3' if 'z3' in h['flags'] else 'kani/cbmc+cadical'), harness=h['full'], status=r['status'], checks=r['checks'],
                   covers=r['covers'], time_s=r['time'], bounded=h['bounded'], failed_checks=r['failed_checks'])
        records.append(rec)
        cov_ok = r['covers'] is not None and r['covers'][0] == r['covers'][1] and r['covers'][1] > 0
        if r['status'] == 'SUCCESSFUL':
            if not cov_ok:
                undecided.append((h['name'], 'vacuity guard: cover properties %r not all satisfied' % (r['covers'],)))
                rec['verdict'] = 'undecided'
            else:
                passed.append(h['name'])
                rec['verdict'] = 'discharged'
        elif r['status'] == 'FAILED':
            fc = sorted(set(r['failed_checks']))
            f = kf.get(h['name'])
            only_unwind = fc and all('unwinding assertion' in c for c in fc)
            only_unsupported = fc and all(('is not currently supported' in c or 'unsupported' in c.lower()) for c in fc)
            if f and fc and set(fc) <= set(f['checks']):
                known_hit.append((h['name'], f))
                rec['verdict'] = 'known-finding'
            elif (only_unwind and not h['term']) or only_unsupported or not fc:
                undecided.append((h['name'], 'kani failed without a semantic check: %r' % fc))
                rec['verdict'] = 'undecided'
            else:
                violations.append((h, r, f))
                rec['verdict'] = 'violation'
        else:
            rec['verdict'] = 'undecided'
            if r['status'] in ('TIMEOUT', 'NO_RESULT') and 'thr' in h['flags']:
                # resource limit on a thorough-only obligation: recorded in evidence, not an infrastructure failure
                soft_undecided.append((h['name'], 'solver time-out (thorough-only obligation)'))
            else:
                undecided.append((h['name'], 'kani status %s' % r['status']))
    # Verus classification
    for u in vres:
        for ob in u['obligations']:
            rec = dict(obligation=ob['name'], engine='verus/z3', unit=u['name'], status=ob['status'], time_s=ob.get('time_s'), bounded=False,
                       failed_checks=ob.get('errors', []))
            records.append(rec)
            if ob['status'] == 'verified':
                passed.append(ob['name'])
                rec['verdict'] = 'discharged'
            elif ob['status'] == 'failed':
                f = kf.get(ob['name'])
                if f:
                    known_hit.append((ob['name'], f))
                    rec['verdict'] = 'known-finding'
                else:
                    violations.append((dict(name=ob['name'], verus=True, unit=u), ob, None))
                    rec['verdict'] = 'violation'
            else:
                undecided.append((ob['name'], ob.get('reason', ob['status'])))
                rec['verdict'] = 'undecided'
        for prob in u.get('problems', []):
            undecided.append((u['name'], prob))

    # known findings that no longer fail are simply discharged; nothing to do.
    for name, f in known_hit:
        log('KNOWN-FINDING: property=%s %s %s' % (prop, name, f['what']))

    viol_lines = []
    REPLAY_CAP = int(os.environ.get('VERIF_REPLAY_CAP', '6'))
    pending = []   # (h, payload, tests)
    n_full = 0
    for h, r, f in violations:
        if h.get('native_done'):
            continue
        if h.get('verus'):
            payload = dict(engine='verus', verifier_output=r.get('errors', []), generated_file=h['unit'].get('generated'),
                           note='Verus gives no counterexample', failing_input=None)
            pair = h['unit'].get('pair')
            if pair:
                payload['paired_kani_harness'] = pair
            pth = write_replay(prop, h['name'], payload)
            viol_lines.append('VIOLATION property=%s replay=%s obligation=%s no-failing-input-found' % (prop, pth, h['name']))
            continue
        payload = dict(engine='kani', harness=h['full'], hook=h['hook'], crate=h['crate'], failed_checks=r['failed_checks'],
                       verifier_output='\n'.join(r.get('raw', []))[-8000:])
        tests = []
        if n_full < REPLAY_CAP:
            n_full += 1
            tail, tests = kani_playback_print(h)
            tests = [t for t in tests if 'Check for `cover`' not in t]
            payload['verifier_output'] = tail[-8000:]
            payload['playback_tests'] = tests
            payload['concrete_values'] = [concrete_values(t) for t in tests]
        else:
            payload['note'] = 'counterexample extraction skipped: more than %d violations in this run (VERIF_REPLAY_CAP)' % REPLAY_CAP
        pending.append((h, payload, tests))
    # one native build replays every collected counterexample against the real code
    by_crate_tests = {}
    for h, payload, tests in pending:
        if tests:
            by_crate_tests.setdefault(h['crate'], {}).setdefault(h['hook'], []).extend(tests)
    native = {}
    for crate, hooks_tests in by_crate_tests.items():
        native[crate] = native_playback(crate, hooks_tests)
    for h, payload, tests in pending:
        suffix = ''
        if tests:
            nat = native[h['crate']]
            mine = {k: v for k, v in nat['outcomes'].items() if ('_' + h['name'] + '_') in k}
            payload['native_replay'] = dict(outcomes=mine, cmd=nat['cmd'], panics=[p for p in nat['panics']][:20], output_tail=nat['output'][-3000:])
            reproduced = any(v == 'FAILED' for v in mine.values()) or nat['aborted']
            payload['reproduced_natively'] = reproduced
            if not reproduced:
                payload['note'] = ('counterexample did not panic natively; the failed check may be an undefined-behaviour class '
                                   '(out-of-bounds / uninitialised read) that a native run does not observe')
        elif 'note' not in payload:
            payload['failing_input'] = None
            suffix = ' no-failing-input-found'
        pth = write_replay(prop, h['name'], payload)
        viol_lines.append('VIOLATION property=%s replay=%s obligation=%s%s' % (prop, pth, h['name'], suffix))

    for name, why in undecided:
        log('UNDECIDED property=%s obligation=%s reason=%s' % (prop, name, why))
    for name, why in soft_undecided:
        log('NOTE property=%s obligation=%s not decided: %s' % (prop, name, why))
    for l in native_viol + viol_lines:
        log(l)

    wall = time.time() - t0
    if not only:
        write_evidence(prop, tier, seed, records, metas, harnesses, vres, known_hit, undecided + soft_undecided, violations, cmds, wall)
    n_bounded = sum(1 for r in records if r['bounded'] and r['verdict'] == 'discharged')
    log('SUMMARY property=%s tier=%s obligations=%d discharged=%d (of which bounded=%d) known_findings=%d violations=%d undecided=%d wall=%.1fs' % (
        prop, tier, len(records), len(passed), n_bounded, len(known_hit), len(violations), len(undecided), wall))
    if violations:
        return 1
    if undecided:
        return 2
    return 0


def sha_of(path):
    try:
        return hashlib.sha256(open(path, 'rb').read()).hexdigest()[:16]
    except OSError:
        return None


def write_evidence(prop, tier, seed, records, metas, harnesses, vres, known_hit, undecided, violations, cmds, wall):
    os.makedirs(EVID, exist_ok=True)
    hooks_used = sorted(set(h['hook'] for h in harnesses))
    hook_by = {h['hook']: h for h in load_hooks()}
    fns = []
    for m in metas:
        if m['hook'] in hooks_used:
            fns.append(dict(file=m['file'], item=m['item'], sha256_16=m['sha'], via='closure extraction (route 3)'))
    for m in fn_contract_meta():
        if m['hook'] in hooks_used:
            fns.append(dict(file=m['file'], item=m['item'], file_sha256_16=sha_of(os.path.join(REPO, m['src_file'])), via='in-crate harness on the real item'))
    for u in vres:
        for e in u.get('extracted', []):
            fns.append(dict(file=e['file'], item=e['item'], sha256_16=e['sha'], via='verus: mechanical extraction'))
    proved = [r for r in records if r['verdict'] == 'discharged' and not r['bounded']]
    bounded = [r for r in records if r['verdict'] == 'discharged' and r['bounded']]
    claimed = [r for r in records if r['verdict'] in ('discharged', 'violation', 'undecided') and not r['bounded']]
    by_backend = {}
    for r in records:
        if r['verdict'] == 'discharged':
            by_backend[r['engine']] = by_backend.get(r['engine'], 0) + 1
    solver_time = sum((r.get('time_s') or 0) for r in records)
    meta = json.load(open(os.path.join(VERIF, 'units', 'props.json'))).get(prop, {})
    level = meta.get('level', 'proof')
    trusted = list(GLOBAL_TRUST) + meta.get('trusted', [])
    for u in vres:
        trusted += u.get('trusted', [])
    samples = []
    for r in records[:3] + records[-2:]:
        samples.append({k: r[k] for k in ('obligation', 'engine', 'status', 'verdict', 'time_s', 'failed_checks') if k in r})
    cov = dict(
        obligations=len(claimed),
        discharged=len(proved),
        checker_cmd=' && '.join(cmds + [u['cmd'] for u in vres if u.get('cmd')]) or 'none',
        trusted_base=trusted,
        evaluations=len(records),
        distinct_nontrivial=len(set(r['obligation'] for r in records if r['verdict'] == 'discharged')),
        rule=('one evaluation = one named obligation (a Kani harness with all of its CBMC checks, or a Verus function with all of its '
              'verification conditions); non-trivial = discharged with every kani::cover! satisfied (Kani) / canary precondition check passed (Verus)'),
        samples=samples,
        exhaustive=False,
        bounded_units=[dict(obligation=r['obligation'], time_s=r.get('time_s')) for r in bounded],
        bounded_note='bounded units are complete only up to the input-size bound stated in DESIGN.md for the unit; they are NOT counted in obligations/discharged',
        known_finding_obligations=[dict(obligation=n, what=f['what']) for n, f in known_hit],
        undecided=[dict(obligation=n, reason=w) for n, w in undecided],
        functions_under_contract=fns,
        by_backend=by_backend,
        solver_time_s=round(solver_time, 2),
        obligation_records=records,
        extraction_drops=meta.get('extraction_drops', []) + [d for u in vres for d in u.get('rewrites', [])],
        not_decided=meta.get('not_decided', ''),
        explanation=meta.get('explanation', ''),
    )
    ev = dict(property_id=prop, tier=tier, seed=seed, level=level, coverage=cov, assumptions=trusted + meta.get('assumptions', []),
              wall_s=round(wall, 2), violations=len(violations))
    json.dump(ev, open(os.path.join(EVID, prop + '.json'), 'w'), indent=1)


def replay_file(path):
    d = json.load(open(path))
    log('replaying obligation %s (property %s)' % (d['obligation'], d['property']))
    if d.get('engine') != 'kani' or not d.get('playback_tests'):
        log('no concrete input recorded (no-failing-input-found); verifier output follows')
        log(json.dumps(d.get('verifier_output'), indent=1)[:4000])
        return 0
    try:
        nat = native_playback(d['crate'], {d['hook']: d['playback_tests']})
    except Undecided as e:
        log('UNDECIDED %s' % e)
        return 2
    log(nat['output'][-3000:])
    rep = any(v == 'FAILED' for v in nat['outcomes'].values()) or nat['aborted']
    log('REPLAY %s' % ('reproduced: the real code fails on the recorded input' if rep else 'did not reproduce natively'))
    return 1 if rep else 0


def setup():
    """Run once after a fresh restore: generate kernel files and warm the cargo-kani build (offline)."""
    try:
        generate_all()
    except Undecided as e:
        log('setup: %s' % e)
        return 2
    crates = sorted(set(h['crate'] for h in load_hooks()))
    rc = 0
    for c in crates:
        cmd = ['cargo', 'kani', '-p', c, '--target-dir', KANI_TARGET, '--only-codegen'] + KANI_FLAGS
        p = subprocess.run(cmd, cwd=REPO, env=ENV, stdout=subprocess.PIPE, stderr=subprocess.STDOUT, text=True)
        log('setup: warmed kani build of %s (exit %d)' % (c, p.returncode))
        if p.returncode != 0:
            log(p.stdout[-3000:])
            rc = 1
    return rc
