// C07 U2 compute_grouping_value: NOT decided by Kani -- `BTreeSet<usize>` (node allocation, tree search) exhausts CBMC's
// memory even for a 2-element set and 2 GROUPING arguments (measured: out of memory after ~4 min).  The unit is taken
// to Verus instead if the extractor can abstract `grouping_set.contains`; see DESIGN.md.
use super::*;

include!("/verif/build/kani-gen/grouping_value.playback.rs");
