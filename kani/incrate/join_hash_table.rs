// C06 (bounded stand-in, native): the join hash table against the DEFINITION of the join, on the real build / hash /
// probe / scan / drain code:  for INNER, LEFT, RIGHT and LEFT SEMI joins on one INT key, every build side of <= 4 rows
// over {1, 2, NULL} (duplicates included) collected in batches of the block capacity (2 or 3, so the build side spans
// several row blocks), and every probe side of two batches (<= 2 and <= 1 rows over {1, 3, NULL}), the multiset of
// rows produced by scan + right-side flush + drain equals the pairs the condition admits plus each unmatched
// preserved-side row exactly once, NULL-padded; NULL keys match nothing.
// (Raw-pointer row blocks and the directory are outside both verifiers.)
use super::*;
use crate::arrays::array::Array;
use crate::arrays::batch::Batch;
use crate::arrays::datatype::DataType;
use crate::arrays::scalar::BorrowedScalarValue;
use crate::execution::operators::hash_join::HashJoinCondition;
use crate::expr::comparison_expr::ComparisonOperator;
use crate::expr::physical::PhysicalScalarExpression;
use crate::util::iter::TryFromExactSizeIterator;

//@fn execution/operators/hash_join/hash_table/mod.rs JoinHashTable::{collect_build, finish_build, init_directory, process_hashes, probe}
//@fn execution/operators/hash_join/hash_table/scan.rs HashTablePartitionScanState::scan_next (inner / left / right / semi)
//@fn execution/operators/hash_join/hash_table/drain.rs HashTablePartitionDrainState::{drain_next, load_row_ptrs}

type V = Option<i32>;

fn seqs(alphabet: &[V], max_len: usize) -> Vec<Vec<V>> {
    let mut all = vec![vec![]];
    let mut frontier: Vec<Vec<V>> = vec![vec![]];
    for _ in 0..max_len {
        let mut next = Vec::new();
        for w in &frontier {
            for &c in alphabet {
                let mut x = w.clone();
                x.push(c);
                next.push(x);
            }
        }
        all.extend(next.iter().cloned());
        frontier = next;
    }
    all
}

fn val(arr: &Array, i: usize) -> V {
    let v = arr.get_value(i).unwrap();
    match v {
        BorrowedScalarValue::Null => None,
        BorrowedScalarValue::Int32(x) => Some(x),
        _ => panic!("unexpected value"),
    }
}

fn run_join(join_type: JoinType, cap: usize, left: &[V], right_batches: &[Vec<V>]) -> Vec<(V, V)> {
    let table = JoinHashTable::try_new(
        join_type,
        [DataType::int32()],
        [DataType::int32()],
        [HashJoinCondition {
            left: PhysicalScalarExpression::Column((0, DataType::int32()).into()),
            right: PhysicalScalarExpression::Column((0, DataType::int32()).into()),
            op: ComparisonOperator::Eq,
        }],
        cap,
    )
    .unwrap();
    let op_state = table.create_operator_state().unwrap();
    let mut build_states = table.create_build_partition_states(&op_state, 1).unwrap();
    for chunk in left.chunks(cap) {
        let mut input = Batch::from_arrays([Array::try_from_iter(chunk.to_vec()).unwrap()]).unwrap();
        table.collect_build(&op_state, &mut build_states[0], &mut input).unwrap();
    }
    let is_last = table.finish_build(&op_state, &mut build_states[0]).unwrap();
    assert!(is_last);
    unsafe { table.init_directory(&op_state).unwrap() };
    unsafe { table.process_hashes(&op_state, &mut build_states[0]).unwrap() };

    let semi = matches!(join_type, JoinType::LeftSemi);
    let out_types: Vec<DataType> = if semi { vec![DataType::int32()] } else { vec![DataType::int32(), DataType::int32()] };
    let mut scan_states = table.create_probe_partition_states(&op_state, 1).unwrap();
    let mut out = Batch::new(out_types.clone(), cap).unwrap();
    let mut rows: Vec<(V, V)> = Vec::new();
    for rb in right_batches {
        if rb.is_empty() {
            continue;
        }
        let mut rhs = Batch::from_arrays([Array::try_from_iter(rb.clone()).unwrap()]).unwrap();
        table.probe(&op_state, &mut scan_states[0], &mut rhs).unwrap();
        let mut guard = 0;
        loop {
            scan_states[0].scan_next(&table, &op_state, &mut rhs, &mut out).unwrap();
            if out.num_rows() == 0 {
                break;
            }
            for i in 0..out.num_rows() {
                if semi {
                    panic!("semi join produced rows while probing");
                }
                rows.push((val(&out.arrays()[0], i), val(&out.arrays()[1], i)));
            }
            guard += 1;
            assert!(guard < 100, "scan does not terminate");
        }
    }
    if matches!(join_type, JoinType::Left | JoinType::LeftSemi) {
        let mut drain = table.create_drain_state_from_scan_state(&op_state, &mut scan_states[0]).unwrap();
        let mut guard = 0;
        loop {
            drain.drain_next(&table, &op_state, &mut out).unwrap();
            if out.num_rows() == 0 {
                break;
            }
            for i in 0..out.num_rows() {
                let l = val(&out.arrays()[0], i);
                let r = if semi { None } else { val(&out.arrays()[1], i) };
                rows.push((l, r));
            }
            guard += 1;
            assert!(guard < 100, "drain does not terminate");
        }
    }
    rows
}

fn expected(join_type: JoinType, left: &[V], right_batches: &[Vec<V>]) -> Vec<(V, V)> {
    let right: Vec<V> = right_batches.iter().flatten().copied().collect();
    let mut rows = Vec::new();
    let matches = |l: V, r: V| l.is_some() && l == r;
    match join_type {
        JoinType::LeftSemi => {
            for &l in left {
                if right.iter().any(|&r| matches(l, r)) {
                    rows.push((l, None));
                }
            }
        }
        _ => {
            for &l in left {
                for &r in &right {
                    if matches(l, r) {
                        rows.push((l, r));
                    }
                }
            }
            if matches!(join_type, JoinType::Left) {
                for &l in left {
                    if !right.iter().any(|&r| matches(l, r)) {
                        rows.push((l, None));
                    }
                }
            }
            if matches!(join_type, JoinType::Right) {
                for &r in &right {
                    if !left.iter().any(|&l| matches(l, r)) {
                        rows.push((None, r));
                    }
                }
            }
        }
    }
    rows
}

#[test]
fn c03c06_join_hash_table__definition_of_join__nat() {
    let lefts = seqs(&[Some(1), Some(2), None], 4);
    let r1 = seqs(&[Some(1), Some(3), None], 2);
    let r2 = seqs(&[Some(1), Some(3), None], 1);
    let mut checked = 0usize;
    for join_type in [JoinType::Inner, JoinType::Left, JoinType::Right, JoinType::LeftSemi] {
        for cap in [2usize, 3] {
            for left in &lefts {
                for a in &r1 {
                    for b in &r2 {
                        let rb = vec![a.clone(), b.clone()];
                        let mut got = run_join(join_type, cap, left, &rb);
                        let mut exp = expected(join_type, left, &rb);
                        got.sort();
                        exp.sort();
                        assert!(got == exp, "{join_type:?} join, block capacity {cap}: build {left:?} probe batches {rb:?} -> {got:?}, definition gives {exp:?}");
                        checked += 1;
                    }
                }
            }
        }
    }
    assert!(checked > 10_000);
}

include!("/verif/build/kani-gen/join_hash_table.playback.rs");
