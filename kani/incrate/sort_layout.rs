// C08 U1/U2: order embedding of the fixed-width sort-key encoders and of the column wrapper
// (validity byte + payload + DESC inversion), composed the way `write_scalar` composes them.
use super::*;

//@fn arrays/sort/sort_layout.rs trait ComparableEncode: impl for u8..u128, i8..i128, f16, f32, f64, bool, Interval, StringPrefix
//@fn arrays/sort/sort_layout.rs SortColumn::{valid_byte, invalid_byte, invert_if_desc}
//@fn arrays/sort/sort_layout.rs key_width_for_physical_type
//@fn arrays/sort/sort_layout.rs StringPrefix::new_from_buf

/// Lexicographic comparison of two equal-length byte strings (len <= 16), loop-free:
/// big-endian interpretation as u128 preserves lexicographic order.
fn lex_key(buf: &[u8]) -> u128 {
    let mut b = [0u8; 16];
    let n = buf.len();
    assert!(n <= 16);
    let mut i = 0;
    while i < 16 {
        if i < n {
            b[i] = buf[i];
        }
        i += 1;
    }
    u128::from_be_bytes(b)
}

fn enc<T: ComparableEncode>(v: &T) -> u128 {
    let mut buf = [0u8; 16];
    v.encode(&mut buf[..T::ENCODE_WIDTH]);
    lex_key(&buf[..T::ENCODE_WIDTH])
}

/// What `write_scalar` writes for one row of one column: `[validity byte][payload]`.
/// (The row/selection walk and the raw row pointer arithmetic are NOT part of this unit.)
fn column_key<T: ComparableEncode + Default + Copy>(col: &SortColumn, v: Option<T>) -> (u8, u128) {
    let mut buf = [0u8; 16];
    let val_buf = &mut buf[..T::ENCODE_WIDTH];
    match v {
        Some(v) => {
            v.encode(val_buf);
            col.invert_if_desc(val_buf);
            (col.valid_byte(), lex_key(val_buf))
        }
        None => {
            T::default().encode(val_buf);
            (col.invalid_byte(), lex_key(val_buf))
        }
    }
}

/// Value order used as the specification.  NOTE: Kani 0.68 mis-models `<` on `bool` (it reports
/// `(a < b) != (!a && b)`), so the bool order FALSE < TRUE is written out explicitly.
trait SpecOrd: Copy + PartialEq {
    fn lt(self, o: Self) -> bool;
}
macro_rules! spec_ord { ($($t:ty),*) => { $(impl SpecOrd for $t { fn lt(self, o: Self) -> bool { self < o } })* } }
spec_ord!(u8, u16, u32, u64, u128, i8, i16, i32, i64, i128);
impl SpecOrd for bool {
    fn lt(self, o: Self) -> bool {
        !self && o
    }
}

fn any_col() -> SortColumn {
    SortColumn { desc: kani::any(), nulls_first: kani::any(), datatype: DataType::INT32.clone() }
}

macro_rules! int_order {
    ($name:ident, $colname:ident, $t:ty) => {
        #[kani::proof]
        #[kani::unwind(17)]
        fn $name() {
            let a: $t = kani::any();
            let b: $t = kani::any();
            kani::cover!(a.lt(b));
            kani::cover!(a == b);
            assert!((enc(&a) < enc(&b)) == a.lt(b), "encoded order differs from value order");
            assert!((enc(&a) == enc(&b)) == (a == b), "encoding is not injective");
        }
        #[kani::proof]
        #[kani::unwind(17)]
        fn $colname() {
            let col = any_col();
            let a: Option<$t> = kani::any();
            let b: Option<$t> = kani::any();
            let ka = column_key(&col, a);
            let kb = column_key(&col, b);
            kani::cover!(col.desc && a.is_some() && b.is_some());
            kani::cover!(col.nulls_first && a.is_none() && b.is_some());
            match (a, b) {
                (None, None) => assert!(ka == kb, "two NULLs must have equal keys"),
                (None, Some(_)) => assert!((ka < kb) == col.nulls_first && ka != kb, "NULL placement (NULLS FIRST/LAST) violated"),
                (Some(_), None) => assert!((ka > kb) == col.nulls_first && ka != kb, "NULL placement (NULLS FIRST/LAST) violated"),
                (Some(x), Some(y)) => {
                    if col.desc {
                        assert!((ka < kb) == y.lt(x), "DESC order violated");
                    } else {
                        assert!((ka < kb) == x.lt(y), "ASC order violated");
                    }
                    assert!((ka == kb) == (x == y), "key equality differs from value equality");
                }
            }
        }
    };
}

int_order!(c08_encode_u8__order, c08_column_u8__order, u8);
int_order!(c08_encode_u16__order, c08_column_u16__order, u16);
int_order!(c08_encode_u32__order, c08_column_u32__order, u32);
int_order!(c08_encode_u64__order, c08_column_u64__order, u64);
int_order!(c08_encode_u128__order, c08_column_u128__order, u128);
int_order!(c08_encode_i8__order, c08_column_i8__order, i8);
int_order!(c08_encode_i16__order, c08_column_i16__order, i16);
int_order!(c08_encode_i32__order, c08_column_i32__order, i32);
int_order!(c08_encode_i64__order, c08_column_i64__order, i64);
int_order!(c08_encode_i128__order, c08_column_i128__order, i128);
// SQL: FALSE < TRUE (also the comment above the impl)
int_order!(c08_encode_bool__order, c08_column_bool__order, bool);

macro_rules! float_order {
    ($name:ident, $nan:ident, $colname:ident, $t:ty, $any:expr) => {
        #[kani::proof]
        #[kani::unwind(17)]
        fn $name() {
            let a: $t = $any;
            let b: $t = $any;
            kani::assume(!a.is_nan() && !b.is_nan());
            kani::cover!(a < b);
            if a < b {
                assert!(enc(&a) < enc(&b), "encoded order differs from numeric order");
            }
            if enc(&a) == enc(&b) {
                assert!(a == b, "distinct numbers share a key");
            }
        }
        // "NaN above every number" (C08), for every NaN bit pattern
        #[kani::proof]
        #[kani::unwind(17)]
        fn $nan() {
            let a: $t = $any;
            let b: $t = $any;
            kani::assume(a.is_nan() && !b.is_nan());
            kani::cover!(true);
            assert!(enc(&a) > enc(&b), "a NaN is not ordered above a number");
        }
        #[kani::proof]
        #[kani::unwind(17)]
        fn $colname() {
            let col = any_col();
            let a: $t = $any;
            let b: $t = $any;
            kani::assume(!a.is_nan() && !b.is_nan());
            let n: bool = kani::any();
            let ka = column_key(&col, Some(a));
            let kb = column_key(&col, if n { None } else { Some(b) });
            kani::cover!(col.desc && !n && a < b);
            if n {
                assert!((ka > kb) == col.nulls_first && ka != kb, "NULL placement (NULLS FIRST/LAST) violated");
            } else if a < b {
                assert!(if col.desc { ka > kb } else { ka < kb }, "ASC/DESC order violated");
            }
        }
    };
}
fn any_f16() -> half::f16 {
    half::f16::from_bits(kani::any())
}
float_order!(c08_encode_f32__order, c08_encode_f32__nan_above_all, c08_column_f32__order, f32, kani::any());
float_order!(c08_encode_f64__order, c08_encode_f64__nan_above_all, c08_column_f64__order, f64, kani::any());
float_order!(c08_encode_f16__order, c08_encode_f16__nan_above_all, c08_column_f16__order, half::f16, any_f16());

#[kani::proof]
#[kani::unwind(17)]
fn c08_encode_interval__order() {
    let a = Interval { months: kani::any(), days: kani::any(), nanos: kani::any() };
    let b = Interval { months: kani::any(), days: kani::any(), nanos: kani::any() };
    kani::cover!(a < b);
    // field-wise (months, days, nanos) order == derived Ord on Interval
    assert!((enc(&a) < enc(&b)) == (a < b));
    assert!((enc(&a) == enc(&b)) == (a == b));
}

// key widths agree with what the encoders write (a mismatch shifts every later column)
#[kani::proof]
fn c08_key_width__matches_encoders() {
    assert!(key_width_for_physical_type(PhysicalType::Boolean) == 1 + 1);
    assert!(key_width_for_physical_type(PhysicalType::Int8) == 1 + 1);
    assert!(key_width_for_physical_type(PhysicalType::Int16) == 2 + 1);
    assert!(key_width_for_physical_type(PhysicalType::Int32) == 4 + 1);
    assert!(key_width_for_physical_type(PhysicalType::Int64) == 8 + 1);
    assert!(key_width_for_physical_type(PhysicalType::Int128) == 16 + 1);
    assert!(key_width_for_physical_type(PhysicalType::UInt8) == 1 + 1);
    assert!(key_width_for_physical_type(PhysicalType::UInt16) == 2 + 1);
    assert!(key_width_for_physical_type(PhysicalType::UInt32) == 4 + 1);
    assert!(key_width_for_physical_type(PhysicalType::UInt64) == 8 + 1);
    assert!(key_width_for_physical_type(PhysicalType::UInt128) == 16 + 1);
    assert!(key_width_for_physical_type(PhysicalType::Float16) == 2 + 1);
    assert!(key_width_for_physical_type(PhysicalType::Float32) == 4 + 1);
    assert!(key_width_for_physical_type(PhysicalType::Float64) == 8 + 1);
    assert!(key_width_for_physical_type(PhysicalType::Interval) == 16 + 1);
    assert!(key_width_for_physical_type(PhysicalType::Utf8) == 12 + 1);
    assert!(key_width_for_physical_type(PhysicalType::Binary) == 12 + 1);
    kani::cover!(true);
}

// C08 U3 (bounded: strings up to 13 bytes, so that the 12-byte prefix boundary is crossed):
// the prefix never contradicts byte-wise order: a <=lex b  ==>  prefix(a) <= prefix(b).
#[kani::proof]
#[kani::unwind(17)]
fn c08_string_prefix__monotone__bnd() {
    let abuf: [u8; 13] = kani::any();
    let bbuf: [u8; 13] = kani::any();
    let la: usize = kani::any();
    let lb: usize = kani::any();
    kani::assume(la <= 13 && lb <= 13);
    let a = &abuf[..la];
    let b = &bbuf[..lb];
    // byte-wise lexicographic order, written out (loop bounded by 13)
    let mut i = 0;
    let mut ord = 0i8; // -1 a<b, 0 equal so far, 1 a>b
    while i < 13 {
        if ord == 0 {
            if i < la && i < lb {
                if a[i] < b[i] { ord = -1 } else if a[i] > b[i] { ord = 1 }
            } else if i >= la && i < lb {
                ord = -1
            } else if i < la && i >= lb {
                ord = 1
            }
        }
        i += 1;
    }
    let pa = enc(&StringPrefix::new_from_buf(a));
    let pb = enc(&StringPrefix::new_from_buf(b));
    kani::cover!(ord < 0 && la > 12);
    if ord <= 0 {
        assert!(pa <= pb, "prefix order contradicts byte-wise string order");
    }
    if la <= 12 && lb <= 12 && pa == pb && !a.contains(&0) && !b.contains(&0) {
        // without NUL bytes, equal prefixes of short strings mean equal strings
        assert!(ord == 0);
    }
}

include!("/verif/build/kani-gen/sort_layout.playback.rs");
