// C19 U4 (bounded: metadata prefixes of <= 10 bytes (<= 4 for the thorough-only skip harness), arbitrary reader state): the Thrift compact-protocol reader that
// decodes Parquet footers and page headers (thrift.rs, `TCompactSliceInputProtocol`).  On ARBITRARY bytes every read
// operation -- and the generic `skip` of an unknown field of ANY wire type -- returns Ok or Err; it never panics
// (slice index, shift / add overflow, `unimplemented!`), never reads past the slice (CBMC pointer checks on the real
// code) and only ever moves the cursor forward.  A list header never announces more elements than there are bytes
// left, so `Vec::with_capacity(count)` in the generated decoders is bounded by the size of the input.
use thrift::protocol::{TInputProtocol, TType};

use super::*;

//@fn thrift.rs TCompactSliceInputProtocol::{read_vlq, read_zig_zag, read_list_set_begin}
//@fn thrift.rs impl TInputProtocol for TCompactSliceInputProtocol :: {read_byte, read_bool, read_i8, read_i16, read_i32, read_i64, read_double, read_bytes, read_field_begin, read_list_begin, read_struct_begin, read_struct_end} + thrift::protocol::TInputProtocol::skip (library default method, over these)

fn stub_format(_: std::fmt::Arguments<'_>) -> String {
    String::new()
}

const N: usize = 10;

fn any_prot(buf: &[u8; N]) -> TCompactSliceInputProtocol<'_> {
    let n: usize = kani::any();
    kani::assume(n <= N);
    let mut p = TCompactSliceInputProtocol::new(&buf[..n]);
    p.last_read_field_id = kani::any();
    p.pending_read_bool_value = if kani::any() { Some(kani::any()) } else { None };
    p
}

fn forget<T>(r: thrift::Result<T>) -> bool {
    let ok = r.is_ok();
    std::mem::forget(r);
    ok
}

#[kani::proof]
#[kani::unwind(14)]
#[kani::stub(std::fmt::format, stub_format)]
fn c19_thrift__scalar_reads_ok_or_err_never_trap__bnd() {
    let buf: [u8; N] = kani::any();
    let mut p = any_prot(&buf);
    let before = p.buf.len();
    let op: u8 = kani::any();
    kani::assume(op < 9);
    kani::cover!(op == 5 && before < 8);
    kani::cover!(op == 4 && before == N);
    let ok = match op {
        0 => forget(p.read_byte()),
        1 => forget(p.read_bool()),
        2 => forget(p.read_i8()),
        3 => forget(p.read_i16()),
        4 => forget(p.read_i64()),
        5 => forget(p.read_double()),
        6 => forget(p.read_i32()),
        7 => forget(p.read_vlq()),
        _ => forget(p.read_zig_zag()),
    };
    assert!(p.buf.len() <= before, "cursor moved backwards");
    if ok && op != 1 {
        assert!(p.buf.len() < before, "a successful read consumed nothing");
    }
    std::mem::forget(p);
}

#[kani::proof]
#[kani::unwind(14)]
#[kani::stub(std::fmt::format, stub_format)]
fn c19_thrift__field_and_list_headers_ok_or_err_never_trap__bnd() {
    let buf: [u8; N] = kani::any();
    let mut p = any_prot(&buf);
    let before = p.buf.len();
    if kani::any() {
        kani::cover!(p.last_read_field_id > 32760);
        let r = p.read_field_begin();
        std::mem::forget(r);
    } else {
        let r = p.read_list_begin();
        if let Ok(id) = &r {
            kani::cover!(id.size > 3);
            assert!(id.size >= 0 && id.size as usize <= p.buf.len(), "list header announces more elements than bytes left (unbounded allocation)");
        }
        std::mem::forget(r);
    }
    assert!(p.buf.len() <= before);
    std::mem::forget(p);
}

#[kani::proof]
#[kani::unwind(14)]
#[kani::stub(std::fmt::format, stub_format)]
fn c19_thrift__bytes_ok_or_err_never_trap__bnd() {
    let buf: [u8; N] = kani::any();
    let mut p = any_prot(&buf);
    let before = p.buf.len();
    let r = p.read_bytes();
    if let Ok(v) = &r {
        kani::cover!(v.len() == 3);
        assert!(v.len() < before && p.buf.len() + v.len() < before);
    }
    std::mem::forget(r);
    std::mem::forget(p);
}

// skipping an unknown field of any wire type (what a bit flip in a field header leads to)
#[kani::proof]
#[kani::unwind(9)]
#[kani::stub(std::fmt::format, stub_format)]
fn c19_thrift__skip_any_type_ok_or_err_never_trap__bnd__thr() {
    let buf: [u8; 4] = kani::any();
    let n: usize = kani::any();
    kani::assume(n <= 4);
    let mut p = TCompactSliceInputProtocol::new(&buf[..n]);
    let t: u8 = kani::any();
    kani::assume(t < 11);
    let ty = match t {
        0 => TType::Bool,
        1 => TType::I08,
        2 => TType::I16,
        3 => TType::I32,
        4 => TType::I64,
        5 => TType::Double,
        6 => TType::String,
        7 => TType::Struct,
        8 => TType::List,
        9 => TType::Set,
        _ => TType::Map,
    };
    kani::cover!(t == 9);
    kani::cover!(t == 7 && n == 4);
    let r = p.skip(ty);
    std::mem::forget(r);
    assert!(p.buf.len() <= n);
    std::mem::forget(p);
}

include!("/verif/build/kani-gen/pq_thrift.playback.rs");
