#!/usr/bin/env python3
"""Assemble /verif/seeded/<id>/ from the sub-agent outputs under /tmp/mut, the confirmation results (confirm.json written
by confirm_seed.py) and the detection log (run_seed.py).  Only confirmed seeds are kept.
usage: collect_seeds.py <detect.log> [more detect logs]"""
import json, os, re, shutil, sys

OUT = '/verif/seeded'
TITLES = {
    'C03/1': ('hash-join drain cursor not reset between row blocks', 'a draining partition owns >= 3 build blocks and the drain output fills in the middle of a block (small batch_size / few partitions)'),
    'C03/2': ('collection segment copies from the wrong input offset on the 3rd+ chunk of one batch', 'one appended batch spans three or more storage chunks (batch_size > chunk size, or small batch_size cross join)'),
    'C04/1': ('thread-pool worker loop re-runs a finished task', 'a repeated wake-up arrives exactly during the task\'s final execute()'),
    'C04/2': ('hash join build side no longer wakes partitions waiting to drain', 'every probe partition finalizes and parks in Draining before the last build partition finishes inserting hashes'),
    'C07/1': ('aggregate hash table merge scan keeps a stale NULL mask between scan chunks', 'a merged-in partial table with more groups than the row capacity and a NULL key in a non-final chunk'),
    'C07/2': ('MAX merge lets an empty partial state win against a negative maximum', 'all values negative and an empty / NULL-only partial state merged INTO a valid one'),
    'C08/1': ('string tie-break treats inline strings as fully covered by the 12-byte prefix', 'sort keys <= 12 bytes that differ only in trailing NUL bytes'),
    'C08/2': ('limit hint stops resolving ties one boundary too early', 'a tie exactly at the LIMIT cut on a string first key, no earlier ties'),
    'C08/extra': ('Interval sort key writes nanos without flipping the sign bit', 'intervals with equal months/days and negative nanos'),
    'C12/1': ('decimal + skips the rescale cast when an operand already has the capped result precision', 'operands declared at the maximum precision with different scales'),
    'C12/2': ('AVG(BIGINT) registered with an i64 accumulator instead of i128', 'BIGINT values whose running sum leaves the i64 range'),
    'C13/1': ('DECIMAL->DECIMAL precision check moved before rounding', 'a downscale whose round-half-up carries into a new leading digit (9.995 -> DECIMAL(3,2))'),
    'C13/2': ('DECIMAL->float scale factor computed with powi instead of the literal table', 'scales 33, 34, 37 (f64) / 18+ (f32) where powi is one ulp off'),
    'C05/1': ('IS [NOT] TRUE/FALSE ignores the selection of a non-flat input', 'a boolean column arriving in selected / dictionary / constant layout'),
    'C05/2': ('AND/OR three-valued repair applied only to the first affected row of a batch', 'two or more rows in one batch with a NULL next to the dominant value'),
    'C06/1': ('hash-join drain cursor not reset between row blocks', 'LEFT/SEMI/MARK join draining more than one block per partition'),
    'C06/2': ('stale right-row-matched flags carried into the next probe batch', 'RIGHT join: a fully matched probe batch followed by a batch with an unmatched row at a lower index'),
    'C14/1': ('CREATE TABLE IF NOT EXISTS ... AS appends into the existing table', 'the table already exists'),
    'C14/2': ('collection segment copies from the wrong input offset on the 3rd+ chunk of one batch', 'SET batch_size = 8192 and a large INSERT / CTAS'),
    'C10/1': ('bit_unpack word-at-a-time fast path drops the top bits', 'bit width 58..=63 at a non-zero bit offset with the value\'s top bit set'),
    'C10/2': ('dictionary array reused in place keeps stale NULL slots', 'three dictionary pages of sizes A >= C > B read by one column reader'),
    'C17/1': ('UTF-8 validated per read instead of per field', 'a multi-byte character straddling a read-buffer boundary'),
    'C17/2': ('type-inference sample treated as the whole file', 'byte 4096 of the file falls inside a bool/int/float field'),
    'C02/1': ('JoinFilterOrRewrite derives a per-table predicate although one OR branch does not mention the table', 'an OR filter over a join whose last branch references a table some other branch does not, and a row satisfying that other branch'),
    'C02/2': ('filter on a group column pushed below a ROLLUP / CUBE aggregate (all/any quantifiers swapped)', 'GROUP BY ROLLUP/CUBE and a HAVING / outer WHERE on a column missing from some grouping set'),
    'C11/1': ('pushed-down scan filter carries the projection-relative instead of the file column index', 'a non-prefix projection where the relative index lands on another projected column whose statistics exclude the constant'),
    'C11/2': ('row-group pruner compares in the signed physical domain', 'a UINT_32 / UINT_64 column whose row group straddles the sign bit'),
    'C19/1': ('bit_unpack checks the remaining bytes once per value instead of once per byte', 'a truncated bit-packed run of width 3, 5, 6, 7 or > 8 cut inside a value'),
    'C19/2': ('CSV column-count check done once per batch on the total field count', 'ragged rows whose surplus and deficit cancel within one batch'),
    'C20/1': ('LIKE prefix classifier compares a byte index with a character count', 'a pattern with a multi-byte character before a trailing %'),
    'C20/2': ('rpad trims the overshoot by bytes instead of characters', 'a multi-byte character among the characters to drop'),
    'C15/1': ('Session::bind returns the verification plan\'s error before restoring enable_optimizer / enable_hash_joins', 'SET verify_optimized_plan TO true and a query whose optimized plan binds but whose unoptimized plan fails'),
    'C15/2': ('tokenizer enters the number branch for any Unicode numeric character but only consumes ASCII digits', 'a non-ASCII numeric character at a token start (SELECT \u00b2): the tokenizer never advances'),
    'C05b/1': ('IS [NOT] DISTINCT FROM tests the validity mask with the dictionary index instead of the row index', 'an input with a NULL and a dictionary-selected input (above a filter, in a CASE branch)'),
    'C05b/2': ('integer literal narrowing in overload resolution accepts MAX + 1 (off-by-one bound)', 'a literal equal to 128 / 32768 / 2147483648 next to a TINYINT / SMALLINT / INT operand'),
    'C13b/1': ('FLOAT -> DECIMAL rounds with floor(x + 0.5) instead of round-half-away', 'a negative value that is an exact tie after scaling (-2.5 at scale 0, -0.125 at scale 2)'),
    'C13b/2': ('BIGINT literal narrowed to INT by wrapping during overload resolution', 'an integer literal beyond the INT range next to an INT operand'),
    'C12b/1': ('DECIMAL * INTEGER casts the integer operand to the left operand\'s decimal type', 'decimal on the left with scale > 0, integer on the right, and a parent expression using the product'),
    'C12b/2': ('SUM merge of partial states uses an unchecked add', 'partial sums that are representable while the total is not (two partitions)'),
    'C03b/1': ('LIMIT no longer clears the remaining offset after slicing the batch where the OFFSET ends', 'an OFFSET ending inside a batch and a LIMIT not satisfied within that batch (batch_size 16 or 7)'),
    'C03b/2': ('nested-loop RIGHT join carries the right-row match flags into the next probe batch (MatchTracker::reset removed)', 'RIGHT JOIN executed by the nested-loop join with the probe side arriving in more than one batch'),
    'C04b/1': ('nested-loop join LEFT-drain barrier checks the build counter instead of the probe counter', 'LEFT JOIN on a non-equality condition, at least 2 partitions, one probe partition finishing early'),
    'C04b/2': ('ungrouped aggregate: the last distinct merger wakes the wrong waiter set', 'sum/count(DISTINCT ..) without GROUP BY on at least 2 partitions'),
    'C07b/1': ('variance / stddev merge computes the cross term from the already updated mean', 'a group whose rows arrive through at least two partitions with different means'),
    'C07b/2': ('grouped DISTINCT aggregates are fed with indexes relative to the DISTINCT list instead of absolute aggregate indexes', 'GROUP BY with a DISTINCT aggregate listed after a plain one'),
    'C14b/1': ('DROP SCHEMA IF EXISTS short-circuits the removal', 'DROP SCHEMA IF EXISTS on an existing schema'),
    'C08b/1': ('BINARY sort keys are no longer marked heap-backed (only the 12-byte prefix is compared)', 'a BINARY / BLOB sort key with two values agreeing on their first 12 bytes'),
    'C08b/2': ('LIMIT no longer clears the remaining offset after slicing the batch where the OFFSET ends', 'an OFFSET ending inside a batch and a LIMIT spanning further batches'),
    'C10b/1': ('padding of the last delta miniblock rounded down instead of up', 'a DELTA_LENGTH_BYTE_ARRAY / DELTA_BYTE_ARRAY page whose last length miniblock is partially filled and not byte aligned'),
    'C10b/2': ('a compressed v1 data page whose two sizes are equal is copied instead of decompressed', 'a page of a compressed chunk whose compressed size happens to equal its uncompressed size'),
    'C17b/1': ('ByteRecords::clear_completed fast path ignores pending field ends', 'a read ending right after the delimiter of a leading empty field while completed records are cleared'),
    'C17b/2': ('the header is skipped again after every refill of the record buffer', 'a file with a header and more records than the batch capacity'),
    'C20b/1': ('LIKE-to-regex translation pushes the escaped character without regex escaping', 'a LIKE pattern escaping a regex metacharacter (a\\.c)'),
    'C20b/2': ('left() with a negative count uses the byte length', 'a negative count and a multi-byte character'),
    'C02b/1': ('the sort-limit hint ignores OFFSET (hint = limit)', 'ORDER BY .. LIMIT l OFFSET o with o > 0 and more than l rows'),
    'C02b/2': ('any filter over the mark column turns a LEFT MARK join into a SEMI join', 'x NOT IN (uncorrelated subquery) as a WHERE conjunct'),
    'C06b/1': ('ComparisonOperator::flip maps <= to > (the line of negate())', 'ON r.y <= l.x (right side written first) with equal values'),
    'C06b/2': ('hash join SEMI / MARK scan stops following the chain after the first match', 'two build-side rows with the same matching key in a semi / mark join'),
    'C11b/1': ('_rowid offset of a new row group continues from the rows scanned so far', 'a Parquet file with several row groups, _rowid projected, a group pruned or given to another partition'),
    'C11b/2': ('glob expansion drops queued sub-directories when the same listing produced a file', 'a glob ending in ** over a directory holding both files and sub-directories'),
    'C19b/1': ('uncompressed-chunk page size check relaxed from != to <', 'a page header of an uncompressed chunk announcing uncompressed > compressed size'),
    'C19b/2': ('CSV header detection unwraps the UTF-8 decoding of the first record', 'invalid UTF-8 in the first line of a CSV file'),
    'C15b/1': ('Session::bind propagates the verification plan\'s error with `?` before restoring the two settings', 'verify_optimized_plan on and a query whose unoptimized plan fails to build'),
    'C15b/2': ('VALUES row-width check skipped by an early exit of the NULL-type inference loop', 'VALUES (1), (2, 3): a ragged VALUES list whose first row has no bare NULL'),
    'C16/1': ('RowLayout::compute_heap_sizes assigns instead of accumulating per column', 'a row with two strings longer than 12 bytes (GROUP BY a, b / join build / sort payload)'),
    'C16/2': ('BinaryMerger::merge no longer moves the right run\'s key heap blocks into the merged run', 'ORDER BY on strings tying on their first 12 bytes, three or more sorted runs'),
    'C07c/1': ('a filter on group columns is pushed below a ROLLUP / CUBE aggregate as soon as ONE grouping set has the columns (.all -> .any)', 'GROUP BY ROLLUP (a) HAVING a = 1 / HAVING a IS NULL'),
    'C07c/2': ('bit_and merge drops the "other state is empty" check', 'a partition with no non-NULL row of the group merged into a state that holds a value'),
    'C10c/1': ('a bit-packed run resumed by a second read restarts at bit 0 of the current byte', 'a batch boundary in the middle of a bit-packed run (definition levels / dictionary indices) not on a byte boundary'),
    'C10c/2': ('data page v2 trusts the header\'s is_compressed flag instead of the chunk codec', 'a v2 page in an UNCOMPRESSED chunk with the flag absent or true'),
    'C13c/1': ('timestamp formatters split ticks with truncating / and % and take |remainder|', 'a TIMESTAMP(ms / us) before 1970 with a sub-second part cast to text'),
    'C13c/2': ('DOUBLE -> REAL marked safe to flatten', 'CAST(CAST(d AS REAL) AS DOUBLE) for a DOUBLE that is not exact in f32'),
    'C14c/1': ('CREATE SCHEMA IF NOT EXISTS replaces an existing schema by an empty one', 'CREATE SCHEMA IF NOT EXISTS on a schema that holds tables'),
    'C14c/2': ('INSERT skips the implicit cast when only type parameters differ', 'INSERT of DECIMAL(3,2) values into a DECIMAL(10,4) column'),
    'C03c/1': ('aggregate hash table scan gives each partition a contiguous range of num_blocks / partitions blocks (the remainder is never scanned)', 'GROUP BY / DISTINCT with more groups than one block per final table and a block count that is not a multiple of the partitions'),
    'C03c/2': ('descending generate_series stops when curr == stop at the start of a call', 'generate_series(start, stop, negative step) whose value count minus one is a multiple of the batch size'),
    'C05c/1': ('unary minus binds looser than ^', '-2 ^ 2'),
    'C05c/2': ('float round computed as floor(v + 0.5)', 'round(-2.5), round(0.49999999999999994), odd integers >= 2^52'),
    'C08c/1': ('the top-N limit hint ignores OFFSET', 'ORDER BY .. LIMIT n OFFSET m with m > 0'),
    'C08c/2': ('DESC inversion also flips the validity byte of fixed-width sort keys', 'a DESC key of a non-string type containing NULLs'),
    'C12c/1': ('DECIMAL -> float multiplies by a precomputed reciprocal', 'CAST(0.3 AS DOUBLE), 0.3 / 1.0'),
    'C12c/2': ('DecimalSub::bind checks the LEFT type when deciding whether to rescale the right operand', 'DECIMAL(18,3) - DECIMAL(10,1)'),
    'C14b/2': ('INSERT flushes the table after every batch', 'INSERT ... SELECT from the same table, or an INSERT whose source fails after the first batch'),
}
# how the machinery fared before / after strengthening (filled by hand from the session log)
HISTORY = json.load(open('/verif/seeded/history.json')) if os.path.exists('/verif/seeded/history.json') else {}

detect = {}
for log in sys.argv[1:]:
    for ln in open(log):
        mo = re.match(r'== (\S+) (\[.*\])\s*$', ln)
        if mo:
            detect[mo.group(1)] = json.loads(mo.group(2))

os.makedirs(OUT, exist_ok=True)
rows = []
for key in sorted(detect):
    prop, k = key.split('/')
    sd = '/tmp/mut/%s.out/%s' % (prop, k)
    cj = os.path.join(sd, 'confirm.json')
    if not os.path.exists(cj):
        print('skip (not confirmed yet):', key)
        continue
    conf = json.load(open(cj))
    if not conf.get('confirmed'):
        print('skip (confirmation failed):', key)
        continue
    sid = '%s-%s' % (prop, k)
    dst = os.path.join(OUT, sid)
    os.makedirs(dst, exist_ok=True)
    for f in ('patch.diff', 'demo.diff', 'demo.sh', 'notes.md', 'patch.orig.diff', 'demo.orig.diff'):
        if os.path.exists(os.path.join(sd, f)):
            shutil.copy(os.path.join(sd, f), os.path.join(dst, f))
    title, needs = TITLES.get(key, ('', ''))
    caught = [d for d in detect[key] if d['violations']]
    meta = dict(
        id=sid, property=prop[:3], breaks=title, needs_to_manifest=needs,
        produced_by='independent sub-agent given only the property text and a scratch worktree',
        confirmation=dict(ran=[s['step'] for s in conf['steps']], demo_passes_without_change=conf['steps'][0]['passed'],
                          demo_fails_with_change=not conf['steps'][1]['passed'], compiles=conf['steps'][1].get('compiles'),
                          existing_crate_tests_pass_with_change=conf.get('suite_ok'), crates=conf['crates']),
        detection=[dict(check='./check %s --tier quick' % d['property'], exit_code=d['exit'], violated_obligations=d['violations'], undecided=d['undecided'], summary=d['summary'])
                   for d in detect[key]],
        detected=bool(caught),
        history=HISTORY.get(key, ''),
        rebased=('patch.diff / demo.diff were rebased onto the repaired tree; the sub-agent\'s originals are patch.orig.diff / demo.orig.diff' if os.path.exists(os.path.join(sd, 'patch.orig.diff')) else None),
    )
    json.dump(meta, open(os.path.join(dst, 'meta.json'), 'w'), indent=1)
    rows.append((sid, title, 'yes: ' + ', '.join(sorted(set(o for d in caught for o in d['violations']))[:3]) if caught else 'NO', HISTORY.get(key, '')))
json.dump(rows, open(os.path.join(OUT, 'summary.json'), 'w'), indent=1)
# markdown table for DESIGN.md section 8
with open(os.path.join(OUT, 'TABLE.md'), 'w') as fh:
    fh.write('| seed | change | what it needs to manifest | caught by (quick tier, final machinery) | history |\n|---|---|---|---|---|\n')
    for sid, title, caught, hist in rows:
        needs = TITLES.get(sid.replace('-', '/'), ('', ''))[1]
        fh.write('| %s | %s | %s | %s | %s |\n' % (sid, title, needs, caught.replace('yes: ', '').replace('NO', '**not caught**'), hist))
for r in rows:
    print(' | '.join(r))
