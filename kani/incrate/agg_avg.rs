// C07 U1 / C12: AVG state algebra.  View = (mathematical sum, row count).
use super::*;
use crate::verif_kani::{stub_backtrace_capture, stub_dberror_new, stub_format, with_put1};

//@fn functions/aggregate/builtin/avg.rs impl AggregateState for AvgStateDecimal<I> :: {update, merge, finalize}
//@fn functions/aggregate/builtin/avg.rs impl AggregateState for AvgStateF64<I, T> :: {update, merge, finalize}

fn forget_ok(r: Result<()>) -> bool {
    let ok = r.is_ok();
    std::mem::forget(r);
    ok
}

// stated bound: fewer than 2^62 rows per state (count never overflows i64)
const MAX_ROWS: i64 = 1 << 62;

fn any_dec64_state() -> AvgStateDecimal<i64> {
    let s = AvgStateDecimal { scale: 1000.0, sum: kani::any(), count: kani::any(), _input: PhantomData };
    kani::assume(s.count >= 0 && s.count < MAX_ROWS);
    // Decimal64 inputs: |x| < 10^18, so |sum| <= count * 10^18 < 2^62 * 2^60
    kani::assume(s.sum > -(1i128 << 122) && s.sum < (1i128 << 122));
    s
}

#[kani::proof]
#[kani::unwind(4)]
#[kani::stub(std::fmt::format, stub_format)]
#[kani::stub(std::backtrace::Backtrace::capture, stub_backtrace_capture)]
#[kani::stub(glaredb_error::DbError::new, stub_dberror_new)]
fn c07c12_avg_dec64_update_merge__exact() {
    let bind = AvgDecimalBindState { scale: 1000.0 };
    let mut a = any_dec64_state();
    let mut b = any_dec64_state();
    let x: i64 = kani::any();
    let (sa, ca, sb, cb) = (a.sum, a.count, b.sum, b.count);
    kani::cover!(true);
    assert!(forget_ok(a.update(&bind, &x)));
    assert!(a.sum == sa + x as i128 && a.count == ca + 1, "update is not (sum + x, count + 1)");
    assert!(forget_ok(a.merge(&bind, &mut b)));
    assert!(a.sum == sa + x as i128 + sb && a.count == ca + 1 + cb, "merge is not component-wise addition");
}

// Decimal128 inputs can overflow the i128 accumulator with two rows: must be an error, not a trap / wrap
#[kani::proof]
#[kani::unwind(4)]
#[kani::stub(std::fmt::format, stub_format)]
#[kani::stub(std::backtrace::Backtrace::capture, stub_backtrace_capture)]
#[kani::stub(glaredb_error::DbError::new, stub_dberror_new)]
fn c07c12_avg_dec128_update__no_trap() {
    let bind = AvgDecimalBindState { scale: 1.0 };
    let mut a: AvgStateDecimal<i128> = AvgStateDecimal { scale: 1.0, sum: kani::any(), count: 1, _input: PhantomData };
    let x: i128 = kani::any();
    // both are legal DECIMAL(38, 0) values
    let lim = crate::verif_kani::POW10[38];
    kani::assume(a.sum > -lim && a.sum < lim && x > -lim && x < lim);
    kani::cover!(a.sum.checked_add(x).is_none());
    let s0 = a.sum;
    let ok = forget_ok(a.update(&bind, &x));
    match s0.checked_add(x) {
        Some(m) => assert!(ok && a.sum == m),
        None => assert!(!ok, "AVG accumulator overflow did not raise an error"),
    }
}

#[kani::proof]
fn c07_avg_dec64_finalize__def() {
    let bind = AvgDecimalBindState { scale: 1000.0 };
    let mut a = any_dec64_state();
    let (s0, c0) = (a.sum, a.count);
    kani::cover!(c0 == 0);
    kani::cover!(c0 > 0);
    let mut ok = false;
    let (out, valid) = with_put1!(f64, 0.0, |buf| ok = forget_ok(a.finalize(&bind, buf)));
    assert!(ok);
    // empty input => NULL, otherwise sum / (count * 10^scale) in f64.  The quotient itself is floating point (the
    // property allows rounding there); a second symbolic f64 divider is intractable, so only sign and zero are pinned.
    assert!(valid == (c0 != 0));
    if c0 != 0 {
        assert!((out == 0.0) == (s0 == 0) || s0 != 0, "zero sum must average to zero");
        assert!(!(s0 > 0 && out < 0.0) && !(s0 < 0 && out > 0.0), "average has the wrong sign");
        assert!(!out.is_nan());
    }
}

// integer AVG accumulates in i128: exact for any number of i64 rows below the stated bound
#[kani::proof]
fn c07c12_avg_i64_update_merge__exact() {
    let mut a: AvgStateF64<i64, i128> = AvgStateF64 { sum: kani::any(), count: kani::any(), _input: PhantomData };
    let mut b: AvgStateF64<i64, i128> = AvgStateF64 { sum: kani::any(), count: kani::any(), _input: PhantomData };
    kani::assume(a.count >= 0 && a.count < MAX_ROWS && b.count >= 0 && b.count < MAX_ROWS);
    kani::assume(a.sum > -(1i128 << 125) && a.sum < (1i128 << 125) && b.sum > -(1i128 << 125) && b.sum < (1i128 << 125));
    let x: i64 = kani::any();
    let (sa, ca, sb, cb) = (a.sum, a.count, b.sum, b.count);
    kani::cover!(true);
    assert!(forget_ok(a.update(&(), &x)));
    assert!(a.sum == sa + x as i128 && a.count == ca + 1);
    assert!(forget_ok(a.merge(&(), &mut b)));
    assert!(a.sum == sa + x as i128 + sb && a.count == ca + 1 + cb);
    let d: AvgStateF64<i64, i128> = Default::default();
    assert!(d.sum == 0 && d.count == 0);
}

#[kani::proof]
fn c07_avg_i64_finalize__def() {
    let mut a: AvgStateF64<i64, i128> = AvgStateF64 { sum: kani::any(), count: kani::any(), _input: PhantomData };
    kani::assume(a.count >= 0);
    let (s0, c0) = (a.sum, a.count);
    kani::cover!(c0 == 0);
    let mut ok = false;
    let (out, valid) = with_put1!(f64, 0.0, |buf| ok = forget_ok(a.finalize(&(), buf)));
    assert!(ok && valid == (c0 != 0));
    if c0 != 0 {
        assert!(!(s0 > 0 && out < 0.0) && !(s0 < 0 && out > 0.0), "average has the wrong sign");
        assert!(s0 != 0 || out == 0.0, "zero sum must average to zero");
        assert!(!out.is_nan());
    }
}

include!("/verif/build/kani-gen/agg_avg.playback.rs");
