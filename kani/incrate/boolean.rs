// C05 U1(a): two-valued part of AND / OR (closure kernels).  The NULL rows of the SQL truth table
// are decided by which executor And::execute picks, not by these closures: see c05_native_* below.
use super::*;
use crate::verif_kani::with_put1;
include!("/verif/build/kani-gen/boolean.kernels.rs");

//@fn functions/scalar/builtin/boolean.rs closures of And::execute (1-ary, 2-ary, n-ary arms)
//@fn functions/scalar/builtin/boolean.rs closures of Or::execute (1-ary, 2-ary, n-ary arms)

#[kani::proof]
fn c05_and_kernels__def() {
    let a: bool = kani::any();
    let b: bool = kani::any();
    let c: bool = kani::any();
    kani::cover!(a && b && c);
    let (v, ok) = with_put1!(bool, false, |buf| k_and1(&a, buf));
    assert!(ok && v == a);
    let (v, ok) = with_put1!(bool, false, |buf| k_and2(&a, &b, buf));
    assert!(ok && v == (a & b), "2-ary AND");
    let xs = [&a, &b, &c];
    let (v, ok) = with_put1!(bool, false, |buf| k_andn(&xs[..], buf));
    assert!(ok && v == (a & b & c), "n-ary AND");
}

#[kani::proof]
fn c05_or_kernels__def() {
    let a: bool = kani::any();
    let b: bool = kani::any();
    let c: bool = kani::any();
    kani::cover!(!a && !b && !c);
    let (v, ok) = with_put1!(bool, false, |buf| k_or1(&a, buf));
    assert!(ok && v == a);
    let (v, ok) = with_put1!(bool, false, |buf| k_or2(&a, &b, buf));
    assert!(ok && v == (a | b), "2-ary OR");
    let xs = [&a, &b, &c];
    let (v, ok) = with_put1!(bool, false, |buf| k_orn(&xs[..], buf));
    assert!(ok && v == (a | b | c), "n-ary OR");
}

include!("/verif/build/kani-gen/boolean.playback.rs");
