// C19 U5 (bounded stand-in, native; NOT a proof): `PageReader::prepare_next` -- page header decoding, size handling,
// level-decoder and value-decoder set-up -- on damaged column chunks.  Three small valid uncompressed chunks (a PLAIN
// data page v1 with definition levels, a dictionary page followed by an RLE_DICTIONARY data page, a data page v2) are
// each damaged in every way of a stated finite family:
//   every truncation (prefix of every length), and every single-byte substitution by 0x00, 0x01, 0x7f, 0x80, 0xff and
//   (original XOR 0x01), (original XOR 0x10)
// and every damaged chunk is read through the real column reader (`ValueColumnReader::read`: prepare_next, level
// decoding, value decoding for as many values as the valid chunk holds).  The reader must
// return Ok or Err: no panic (slice / copy length mismatch, subtraction overflow, `unwrap`, debug assertions of the
// unchecked cursor reads: in release builds those are reads past the page buffer).  Allocation size is not checked.
use std::sync::Arc;

use glaredb_core::arrays::array::Array;
use glaredb_core::arrays::datatype::DataType;
use glaredb_core::buffer::buffer_manager::DefaultBufferManager;
use glaredb_core::buffer::db_vec::DbVec;
use thrift::protocol::TCompactOutputProtocol;

use glaredb_core::arrays::scalar::BorrowedScalarValue;

use super::*;
use crate::basic::{Compression, Type};
use crate::column::column_reader::{ColumnReader, ValueColumnReader};
use crate::column::row_group_pruner::NopRowGroupPruner;
use crate::column::value_reader::primitive::PlainInt32ValueReader;
use crate::schema::types::{ColumnPath, SchemaType};
use crate::thrift::TSerializable;

//@fn column/page_reader.rs PageReader::{prepare_next, read_header, prepare_data_page, prepare_data_page_v2, prepare_dictionary, init_page_decoder}
//@fn compression.rs Codec::decompress as driven by the page reader (SNAPPY, GZIP, LZ4_RAW, ZSTD)

fn header_bytes(h: &format::PageHeader) -> Vec<u8> {
    let mut out = Vec::new();
    {
        let mut prot = TCompactOutputProtocol::new(&mut out);
        h.write_to_out_protocol(&mut prot).unwrap();
    }
    out
}

fn descr(max_def: i16) -> ColumnDescriptor {
    let ty = SchemaType::primitive_type_builder("t", Type::INT32).build().unwrap();
    ColumnDescriptor::new(Arc::new(ty), max_def, 0, Arc::new(ColumnPath::new(vec![])))
}

fn v1_header(num_values: i32, size: i32, encoding: format::Encoding) -> format::PageHeader {
    format::PageHeader {
        type_: format::PageType::DATA_PAGE,
        uncompressed_page_size: size,
        compressed_page_size: size,
        crc: None,
        data_page_header: Some(format::DataPageHeader::new(num_values, encoding, format::Encoding::RLE, format::Encoding::RLE, None)),
        index_page_header: None,
        dictionary_page_header: None,
        data_page_header_v2: None,
    }
}

/// (chunk bytes, max definition level)
fn valid_chunks() -> Vec<(Vec<u8>, i16)> {
    let mut chunks = Vec::new();
    // 1. data page v1, PLAIN, 3 values, definition levels [1,1,1] as one RLE run
    {
        let mut data = Vec::new();
        let levels = [(3u8 << 1), 1u8]; // run of 3 x value 1 (bit width 1)
        data.extend((levels.len() as i32).to_le_bytes());
        data.extend(levels);
        for v in [7i32, 8, 9] {
            data.extend(v.to_le_bytes());
        }
        let mut chunk = header_bytes(&v1_header(3, data.len() as i32, format::Encoding::PLAIN));
        chunk.extend(data);
        chunks.push((chunk, 1));
    }
    // 2. dictionary page (2 values) + RLE_DICTIONARY data page (3 indexes), no levels
    {
        let mut dict = Vec::new();
        for v in [100i32, 200] {
            dict.extend(v.to_le_bytes());
        }
        let dh = format::PageHeader {
            type_: format::PageType::DICTIONARY_PAGE,
            uncompressed_page_size: dict.len() as i32,
            compressed_page_size: dict.len() as i32,
            crc: None,
            data_page_header: None,
            index_page_header: None,
            dictionary_page_header: Some(format::DictionaryPageHeader::new(2, format::Encoding::PLAIN, None)),
            data_page_header_v2: None,
        };
        let mut chunk = header_bytes(&dh);
        chunk.extend(dict);
        let data = vec![1u8, (3u8 << 1), 1u8]; // bit width 1, run of 3 x index 1
        chunk.extend(header_bytes(&v1_header(3, data.len() as i32, format::Encoding::RLE_DICTIONARY)));
        chunk.extend(data);
        chunks.push((chunk, 0));
    }
    // 3. data page v2, PLAIN, 2 values, definition levels (1 byte run header + value), no repetition levels
    {
        let levels = vec![(2u8 << 1), 1u8];
        let mut data = levels.clone();
        for v in [5i32, 6] {
            data.extend(v.to_le_bytes());
        }
        let h = format::PageHeader {
            type_: format::PageType::DATA_PAGE_V2,
            uncompressed_page_size: data.len() as i32,
            compressed_page_size: data.len() as i32,
            crc: None,
            data_page_header: None,
            index_page_header: None,
            dictionary_page_header: None,
            data_page_header_v2: Some(format::DataPageHeaderV2::new(2, 0, 2, format::Encoding::PLAIN, levels.len() as i32, 0, Some(false), None)),
        };
        let mut chunk = header_bytes(&h);
        chunk.extend(data);
        chunks.push((chunk, 1));
    }
    chunks
}

/// Reads up to 4 values from the (possibly damaged) chunk through the real column reader; Ok / Err, panics propagate
fn run(chunk: &[u8], max_def: i16, values: usize) -> std::result::Result<Vec<Option<i32>>, String> {
    let mut reader = ValueColumnReader::<PlainInt32ValueReader, _>::try_new(
        &DefaultBufferManager,
        DataType::int32(),
        descr(max_def),
        NopRowGroupPruner::default(),
    )
    .map_err(|e| e.to_string())?;
    reader.prepare_for_chunk(chunk.len(), Compression::UNCOMPRESSED).map_err(|e| e.to_string())?;
    reader.chunk_buf_mut().copy_from_slice(chunk);
    let mut out = Array::new(&DefaultBufferManager, DataType::int32(), values).map_err(|e| e.to_string())?;
    reader.read(&mut out, values).map_err(|e| e.to_string())?;
    let mut got = Vec::new();
    for r in 0..values {
        got.push(match out.get_value(r).map_err(|e| e.to_string())? {
            BorrowedScalarValue::Int32(v) => Some(v),
            _ => None,
        });
    }
    Ok(got)
}

#[test]
fn c19_page_reader__damaged_chunks_ok_or_err_never_panic__nat() {
    let chunks = valid_chunks();
    let mut cases = 0usize;
    for (ci, (chunk, max_def)) in chunks.iter().enumerate() {
        // the undamaged chunk is readable
        let want: Vec<Option<i32>> = [vec![Some(7), Some(8), Some(9)], vec![Some(200), Some(200), Some(200)], vec![Some(5), Some(6)]][ci].clone();
        let r = run(chunk, *max_def, want.len());
        assert!(r == Ok(want.clone()), "valid chunk {ci} is not read back: {r:?}");
        let mut damaged: Vec<(String, Vec<u8>)> = Vec::new();
        for cut in 0..chunk.len() {
            damaged.push((format!("truncated to {cut} bytes"), chunk[..cut].to_vec()));
        }
        for pos in 0..chunk.len() {
            for sub in [0x00u8, 0x01, 0x7f, 0x80, 0xff, chunk[pos] ^ 0x01, chunk[pos] ^ 0x10] {
                if sub != chunk[pos] {
                    let mut c = chunk.clone();
                    c[pos] = sub;
                    damaged.push((format!("byte {pos} {:#04x} -> {sub:#04x}", chunk[pos]), c));
                }
            }
        }
        for (what, bytes) in damaged {
            let md = *max_def;
            let b = bytes.clone();
            let n = want.len();
            let res = std::panic::catch_unwind(move || run(&b, md, n));
            assert!(res.is_ok(), "page reader panics on a damaged column chunk (chunk {ci}, {what}): bytes {bytes:?}");
            cases += 1;
        }
    }
    assert!(cases > 500);
}
// C10 U8 (bounded stand-in, native; NOT a proof): a column chunk read through the real column reader returns the same
// values whatever the compression codec.  PLAIN INT32 v1 data pages (REQUIRED column) are built for every pair (a, b),
// 0 <= a <= 30 distinct-looking values followed by 0 <= b <= 30 repeats of one value (so pages range from incompressible
// to highly compressible, and pages whose compressed size equals, exceeds or is below the uncompressed size all occur),
// compressed with the crate's own codecs (SNAPPY, GZIP, LZ4_RAW, ZSTD) and laid out as a two-page chunk; the reader must
// return exactly the encoded values for every page.
use crate::compression::{CodecOptions, create_codec};

#[test]
fn c10_compressed_pages__same_values_for_every_codec__nat() {
    let codecs = [Compression::SNAPPY, Compression::GZIP(Default::default()), Compression::LZ4_RAW, Compression::ZSTD(Default::default())];
    let mut cases = 0usize;
    let mut equal_size_pages = 0usize;
    for codec_type in codecs {
        let mut codec = create_codec(codec_type, &CodecOptions::default()).unwrap().unwrap();
        for a in 0..=30usize {
            for b in 0..=30usize {
                if a + b == 0 {
                    continue;
                }
                let mut vals: Vec<i32> = (0..a as i32).map(|i| i.wrapping_mul(0x9E37_79B1u32 as i32) ^ (i << 7)).collect();
                vals.extend(std::iter::repeat(77).take(b));
                // two pages: the values, then the values reversed
                let mut chunk = Vec::new();
                let mut expected: Vec<i32> = Vec::new();
                for page_vals in [vals.clone(), vals.iter().rev().copied().collect::<Vec<_>>()] {
                    let raw: Vec<u8> = page_vals.iter().flat_map(|v| v.to_le_bytes()).collect();
                    let mut compressed = Vec::new();
                    codec.compress(&raw, &mut compressed).unwrap();
                    if compressed.len() == raw.len() {
                        equal_size_pages += 1;
                    }
                    let mut h = v1_header(page_vals.len() as i32, raw.len() as i32, format::Encoding::PLAIN);
                    h.compressed_page_size = compressed.len() as i32;
                    chunk.extend(header_bytes(&h));
                    chunk.extend(compressed);
                    expected.extend(page_vals);
                }
                let mut reader = ValueColumnReader::<PlainInt32ValueReader, _>::try_new(&DefaultBufferManager, DataType::int32(), descr(0), NopRowGroupPruner::default()).unwrap();
                reader.prepare_for_chunk(chunk.len(), codec_type).unwrap();
                reader.chunk_buf_mut().copy_from_slice(&chunk);
                let n = expected.len();
                let mut out = Array::new(&DefaultBufferManager, DataType::int32(), n).unwrap();
                let res = reader.read(&mut out, n);
                assert!(res.is_ok(), "{codec_type:?}: a valid chunk of two pages ({a} distinct + {b} repeated values each) is rejected: {}", res.err().map(|e| e.to_string().lines().next().unwrap_or("").to_string()).unwrap_or_default());
                for r in 0..n {
                    let got = match out.get_value(r).unwrap() {
                        BorrowedScalarValue::Int32(v) => Some(v),
                        _ => None,
                    };
                    assert!(got == Some(expected[r]), "{codec_type:?}: row {r} of a chunk of two pages ({a} distinct + {b} repeated values each) is {got:?}, the file encodes {}", expected[r]);
                }
                cases += 1;
            }
        }
    }
    assert!(cases == 4 * (31 * 31 - 1));
    assert!(equal_size_pages > 0, "the family contains no page whose compressed size equals its uncompressed size");
}

// C10 (bounded stand-in, native; NOT a proof): a data page v2 in a column chunk whose codec is UNCOMPRESSED is read
// whatever its header says about `is_compressed` (the flag is optional and defaults to true; writers set it either
// way; with no codec there is nothing to decompress): flag absent / true / false x 1..=9 rows with NULLs at every
// position pattern of <= 4 rows -> exactly the encoded rows.
#[test]
fn c10_page_v2__uncompressed_chunk_read_whatever_the_compressed_flag__nat() {
    let mut cases = 0usize;
    for flag in [None, Some(true), Some(false)] {
        for n in 1..=4usize {
            for pattern in 0..(1u32 << n) {
                let rows: Vec<Option<i32>> = (0..n).map(|i| if pattern & (1 << i) != 0 { Some(100 + i as i32 * 7) } else { None }).collect();
                // definition levels: one bit-packed group of 8 (width 1)
                let mut defs = 0u8;
                for (i, r) in rows.iter().enumerate() {
                    if r.is_some() {
                        defs |= 1 << i;
                    }
                }
                let levels = vec![(1u8 << 1) | 1, defs];
                let mut data = levels.clone();
                for v in rows.iter().flatten() {
                    data.extend(v.to_le_bytes());
                }
                let nulls = rows.iter().filter(|r| r.is_none()).count() as i32;
                let h = format::PageHeader {
                    type_: format::PageType::DATA_PAGE_V2,
                    uncompressed_page_size: data.len() as i32,
                    compressed_page_size: data.len() as i32,
                    crc: None,
                    data_page_header: None,
                    index_page_header: None,
                    dictionary_page_header: None,
                    data_page_header_v2: Some(format::DataPageHeaderV2::new(n as i32, nulls, n as i32, format::Encoding::PLAIN, levels.len() as i32, 0, flag, None)),
                };
                let mut chunk = header_bytes(&h);
                chunk.extend(data);
                let got = run(&chunk, 1, n);
                assert!(got == Ok(rows.clone()), "data page v2 of an UNCOMPRESSED chunk with is_compressed = {flag:?} is not read back: rows {rows:?}, got {got:?}");
                cases += 1;
            }
        }
    }
    assert!(cases == 3 * 30);
}

include!("/verif/build/kani-gen/pq_page.playback.rs");
