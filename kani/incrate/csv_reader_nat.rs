// C03 / C17 (bounded stand-in, native; NOT a proof): the rows the CSV reader returns do not depend on where the read
// boundaries fall in the file.  The Verus unit `csv_reader::poll_pull_loop` proves that every byte is fed to the decoder
// once and in order; what happens to the bytes afterwards (field slicing, UTF-8 validation, typed parsing) needs
// `str` / byte reasoning Verus does not have, so the real reader is run on a stated finite family:
//   five small files (multi-byte characters of 2, 3 and 4 bytes, quoted fields with embedded separators / newlines /
//   doubled quotes, CRLF, a last record without newline, empty fields = NULL)
//   x every read-buffer size 1 ..= len + 1   x output batch capacities {1, 2, 16}
// and must return exactly the hand-written RFC-4180 records each time.
use glaredb_core::arrays::datatype::DataType;
use glaredb_core::arrays::scalar::BorrowedScalarValue;
use glaredb_core::buffer::buffer_manager::DefaultBufferManager;
use glaredb_core::runtime::filesystem::memory::MemoryFileHandle;
use glaredb_core::util::task::noop_context;

use super::*;
use crate::dialect::DialectOptions;

//@fn reader.rs CsvReader::{poll_pull, write_batch / field writers}
//@fn decoder.rs CsvDecoder::decode (as driven by the reader)

fn read_all(input: &str, read_size: usize, cap: usize) -> Result<Vec<(Option<String>, Option<i64>)>> {
    read_all_h(input, read_size, cap, false)
}

fn read_all_h(input: &str, read_size: usize, cap: usize, has_header: bool) -> Result<Vec<(Option<String>, Option<i64>)>> {
    let file = AnyFile::from_file(MemoryFileHandle::from_bytes(&DefaultBufferManager, input)?);
    let mut reader = CsvReader::new(
        CsvShape { has_header, num_columns: 2 },
        Projections::new([0, 1]),
        vec![0; read_size],
        CsvDecoder::new(DialectOptions::default()),
        ByteRecords::with_buffer_capacity(16),
    );
    reader.prepare(file);
    let mut rows = Vec::new();
    let mut polls = 0;
    loop {
        let mut batch = Batch::new([DataType::utf8(), DataType::int64()], cap)?;
        let poll = reader.poll_pull(&mut noop_context(), &mut batch)?;
        for r in 0..batch.num_rows() {
            let s = match batch.arrays()[0].get_value(r)? {
                BorrowedScalarValue::Utf8(s) => Some(s.to_string()),
                BorrowedScalarValue::Null => None,
                other => panic!("unexpected value {other:?}"),
            };
            let i = match batch.arrays()[1].get_value(r)? {
                BorrowedScalarValue::Int64(v) => Some(v),
                BorrowedScalarValue::Null => None,
                other => panic!("unexpected value {other:?}"),
            };
            rows.push((s, i));
        }
        match poll {
            PollPull::Exhausted => return Ok(rows),
            PollPull::HasMore => (),
            PollPull::Pending => panic!("memory file returned Pending"),
        }
        polls += 1;
        assert!(polls < 1000, "reader does not terminate");
    }
}

#[test]
fn c03c17_csv_reader__rows_independent_of_read_size__nat() {
    let s = |x: &str| Some(x.to_string());
    let files: Vec<(&str, Vec<(Option<String>, Option<i64>)>)> = vec![
        ("aaaa,1\nbbbb,2\nc\u{e9},3\ndddd,4\n", vec![(s("aaaa"), Some(1)), (s("bbbb"), Some(2)), (s("c\u{e9}"), Some(3)), (s("dddd"), Some(4))]),
        ("x,1\ny\u{e9},2", vec![(s("x"), Some(1)), (s("y\u{e9}"), Some(2))]),
        ("\"a,\"\"b\nc\",1\r\n\u{f1},2\r\n", vec![(s("a,\"b\nc"), Some(1)), (s("\u{f1}"), Some(2))]),
        ("\u{65e5}\u{672c},10\n\u{1f600}x,-2\n,3\nz,\n", vec![(s("\u{65e5}\u{672c}"), Some(10)), (s("\u{1f600}x"), Some(-2)), (None, Some(3)), (s("z"), None)]),
        ("q,9223372036854775807", vec![(s("q"), Some(i64::MAX))]),
    ];
    let mut cases = 0usize;
    for (input, want) in &files {
        for read_size in 1..=input.len() + 1 {
            for cap in [1usize, 2, 16] {
                match read_all(input, read_size, cap) {
                    Ok(got) => assert!(
                        &got == want,
                        "CSV rows depend on the read size: file {input:?} read {read_size} bytes at a time (batch capacity {cap}) gives {got:?}, RFC-4180 records are {want:?}"
                    ),
                    Err(e) => panic!("reading a valid CSV file failed: file {input:?} read {read_size} bytes at a time (batch capacity {cap}): {e}"),
                }
                cases += 1;
            }
        }
    }
    // files WITH a header: the header record is skipped exactly once, whatever the read size / batch capacity
    let header_files: Vec<(&str, Vec<(Option<String>, Option<i64>)>)> = vec![
        ("name,score\na,1\nb,2\nc,3", vec![(s("a"), Some(1)), (s("b"), Some(2)), (s("c"), Some(3))]),
        ("h\u{e9},n\n\"x,y\",10\nz,20\nw,30\nv,40\n", vec![(s("x,y"), Some(10)), (s("z"), Some(20)), (s("w"), Some(30)), (s("v"), Some(40))]),
    ];
    for (input, want) in &header_files {
        for read_size in 1..=input.len() + 1 {
            for cap in [1usize, 2, 3, 16] {
                match read_all_h(input, read_size, cap, true) {
                    Ok(got) => assert!(
                        &got == want,
                        "CSV rows depend on the read size: file with header {input:?} read {read_size} bytes at a time (batch capacity {cap}) gives {got:?}, RFC-4180 records after the header are {want:?}"
                    ),
                    Err(e) => panic!("reading a valid CSV file with a header failed: file {input:?} read {read_size} bytes at a time (batch capacity {cap}): {e}"),
                }
                cases += 1;
            }
        }
    }
    assert!(cases > 500);
}

// C19 (bounded stand-in, native): ragged files -- every assignment of 1..=4 fields to each of 3 records (2 or 3 columns
// expected, string or integer second column, with / without header) -- are rejected with an error or read as rows;
// the reader never panics (slice / unwrap on a missing field) and never loops.
#[test]
fn c19_csv_reader__ragged_rows_error_or_rows_never_panic__nat() {
    let mut cases = 0usize;
    for ncols in [2usize, 3] {
        for code in 0..64usize {
            let counts = [1 + code % 4, 1 + (code / 4) % 4, 1 + (code / 16) % 4];
            let mut input = String::new();
            for (r, &c) in counts.iter().enumerate() {
                let fields: Vec<String> = (0..c).map(|f| if f == 0 { format!("s{r}") } else { format!("{}", r * 10 + f) }).collect();
                input.push_str(&fields.join(","));
                input.push('\n');
            }
            for cap in [1usize, 16] {
                for has_header in [false, true] {
                    let inp = input.clone();
                    let res = std::panic::catch_unwind(move || {
                        let file = AnyFile::from_file(MemoryFileHandle::from_bytes(&DefaultBufferManager, &inp).unwrap());
                        let mut reader = CsvReader::new(
                            CsvShape { has_header, num_columns: ncols },
                            Projections::new(0..ncols),
                            vec![0; 7],
                            CsvDecoder::new(DialectOptions::default()),
                            ByteRecords::with_buffer_capacity(16),
                        );
                        reader.prepare(file);
                        let types: Vec<DataType> = (0..ncols).map(|c| if c == 0 { DataType::utf8() } else { DataType::int64() }).collect();
                        let mut polls = 0;
                        loop {
                            let mut batch = Batch::new(types.clone(), cap).unwrap();
                            match reader.poll_pull(&mut noop_context(), &mut batch) {
                                Err(_) => return true,
                                Ok(PollPull::Exhausted) => return true,
                                Ok(_) => (),
                            }
                            polls += 1;
                            if polls > 100 {
                                return false;
                            }
                        }
                    });
                    match res {
                        Ok(true) => (),
                        Ok(false) => panic!("CSV reader does not terminate on ragged file {input:?} ({ncols} columns expected, capacity {cap}, header {has_header})"),
                        Err(_) => panic!("CSV reader panicked on ragged file {input:?} ({ncols} columns expected, capacity {cap}, header {has_header}) instead of returning an error"),
                    }
                    cases += 1;
                }
            }
        }
    }
    assert!(cases == 512);
}

include!("/verif/build/kani-gen/csv_reader_nat.playback.rs");
