use super::*;
use crate::verif_kani::with_put1;
include!("/verif/build/kani-gen/arith_add.kernels.rs");

//@fn functions/scalar/builtin/arith/add.rs closure:Add<S>::execute
macro_rules! add_int {
    ($exact:ident, $err:ident, $S:ty, $t:ty, $w:ty) => {
        #[kani::proof]
        fn $exact() {
            let a: $t = kani::any();
            let b: $t = kani::any();
            let m = (a as $w) + (b as $w);
            kani::assume(m >= <$t>::MIN as $w && m <= <$t>::MAX as $w);
            kani::cover!(true);
            let (v, valid) = with_put1!($t, 0, |buf| k_add::<$S>(&a, &b, buf));
            assert!(valid && (v as $w) == m);
        }
        #[kani::proof]
        fn $err() {
            let a: $t = kani::any();
            let b: $t = kani::any();
            let m = (a as $w) + (b as $w);
            kani::assume(!(m >= <$t>::MIN as $w && m <= <$t>::MAX as $w));
            kani::cover!(true);
            let (v, valid) = with_put1!($t, 0, |buf| k_add::<$S>(&a, &b, buf));
            // no error channel exists: a value must not be produced
            assert!(!valid, "value produced for unrepresentable result");
        }
    };
}
add_int!(c12_add_i8__exact, c12_add_i8__error_when_not, PhysicalI8, i8, i16);
add_int!(c12_add_i64__exact, c12_add_i64__error_when_not, PhysicalI64, i64, i128);

include!("/verif/build/kani-gen/arith_add.playback.rs");
