// C15 U1 (bounded stand-in, native): `glaredb_parser::parser::parse` (tokenizer + parser) is total on
//  (a) every string of <= 4 characters over a 22-character alphabet (quotes, escapes, comment starters, digits,
//      exponent, multi-byte characters incl. non-ASCII numeric ones, whitespace, operators), and
//  (b) every sequence of <= 5 tokens over a 24-token SQL vocabulary:
// it returns Ok or Err -- no panic, no slice inside a character, no hang (each call under a deadline).
use super::*;

//@fn parser.rs parse (Tokenizer::tokenize + Parser::parse_statements)

fn with_deadline(what: &str, f: impl FnOnce() + Send + 'static) {
    let (tx, rx) = std::sync::mpsc::channel();
    std::thread::spawn(move || {
        let r = std::panic::catch_unwind(std::panic::AssertUnwindSafe(f));
        let _ = tx.send(r.is_ok());
    });
    match rx.recv_timeout(std::time::Duration::from_secs(20)) {
        Ok(true) => {}
        Ok(false) => panic!("parse panicked on an input of group {what}"),
        Err(_) => panic!("parse did not return within 20 s on an input of group {what}"),
    }
}

#[test]
fn c15_parse__total_on_short_strings__nat() {
    let alphabet: Vec<char> = "a1 '\"-/*.eé$;\\\n:x(+😀²٣".chars().collect();
    let prefixes = ["", "select ", "select '", "select 1 from t where a like "];
    for (pi, prefix) in prefixes.iter().enumerate() {
        let alphabet = alphabet.clone();
        let prefix = prefix.to_string();
        with_deadline(&format!("chars/prefix#{pi}"), move || {
            let n = alphabet.len();
            let mut idx = [0usize; 4];
            for len in 0..=4usize {
                let total = n.pow(len as u32);
                for mut k in 0..total {
                    for slot in idx.iter_mut().take(len) {
                        *slot = k % n;
                        k /= n;
                    }
                    let mut s = prefix.clone();
                    for &i in idx.iter().take(len) {
                        s.push(alphabet[i]);
                    }
                    let r = std::panic::catch_unwind(|| {
                        let _ = parse(&s);
                    });
                    assert!(r.is_ok(), "parse panicked on {s:?}");
                }
            }
        });
    }
}

#[test]
fn c15_parse__total_on_token_sequences__nat() {
    let vocab = [
        "select", "from", "where", "(", ")", ",", "1", "a", "*", "and", "not", "-", "'x'", "as", "join", "on", "group by", "order by",
        "limit", "null", "case", "::", ".", "=",
    ];
    for first in 0..vocab.len() {
        with_deadline(&format!("tokens/first={}", vocab[first]), move || {
            let n = vocab.len();
            for len in 0..=4usize {
                let total = n.pow(len as u32);
                for mut k in 0..total {
                    let mut s = String::from(vocab[first]);
                    for _ in 0..len {
                        s.push(' ');
                        s.push_str(vocab[k % n]);
                        k /= n;
                    }
                    let r = std::panic::catch_unwind(|| {
                        let _ = parse(&s);
                    });
                    assert!(r.is_ok(), "parse panicked on {s:?}");
                }
            }
        });
    }
}

include!("/verif/build/kani-gen/parser.playback.rs");
