// Shared helpers for the in-crate Kani harnesses (included from crates/glaredb_core/src/lib.rs
// under cfg(kani)).  Nothing here is part of a normal build.

use crate::arrays::array::physical_type::*;
use crate::arrays::array::validity::Validity;
use crate::arrays::executor::PutBuffer;

// Identity functions whose bounds are copied from the executor signatures
// (arrays/executor/scalar/{unary,binary,ternary}.rs): a closure passed through them is
// type-checked exactly as at the real call site.
pub(crate) fn un_kernel<S, O, F>(f: F) -> F
where
    S: ScalarStorage,
    O: MutableScalarStorage,
    for<'a> F: FnMut(&S::StorageType, PutBuffer<O::AddressableMut<'a>>),
{
    f
}

pub(crate) fn bin_kernel<S1, S2, O, F>(f: F) -> F
where
    S1: ScalarStorage,
    S2: ScalarStorage,
    O: MutableScalarStorage,
    for<'a> F: FnMut(&S1::StorageType, &S2::StorageType, PutBuffer<O::AddressableMut<'a>>),
{
    f
}

pub(crate) fn tern_kernel<S1, S2, S3, O, F>(f: F) -> F
where
    S1: ScalarStorage,
    S2: ScalarStorage,
    S3: ScalarStorage,
    O: MutableScalarStorage,
    for<'a> F: FnMut(
        &S1::StorageType,
        &S2::StorageType,
        &S3::StorageType,
        PutBuffer<O::AddressableMut<'a>>,
    ),
{
    f
}

pub(crate) fn uni_kernel<S, O, F>(f: F) -> F
where
    S: ScalarStorage,
    O: MutableScalarStorage,
    for<'a> F: FnMut(&[&S::StorageType], PutBuffer<O::AddressableMut<'a>>),
{
    f
}

/// One output slot written through the real `PutBuffer` / `PrimitiveSliceMut` / `Validity`.
/// `$call` is an expression using `$buf`.  Evaluates to `(value, is_valid)`.
macro_rules! with_put1 {
    ($t:ty, $init:expr, |$buf:ident| $call:expr) => {{
        let mut out: [$t; 1] = [$init];
        let mut validity = crate::arrays::array::validity::Validity::new_all_valid(1);
        {
            let mut slice = crate::arrays::array::physical_type::PrimitiveSliceMut { slice: &mut out[..] };
            let $buf = crate::arrays::executor::PutBuffer::new(0, &mut slice, &mut validity);
            $call;
        }
        (out[0], validity.is_valid(0))
    }};
}
pub(crate) use with_put1;

/// Stubs for the error path (DbError::new formats a message and captures a backtrace).
pub(crate) fn stub_format(_: std::fmt::Arguments<'_>) -> String {
    String::new()
}
pub(crate) fn stub_backtrace_capture() -> std::backtrace::Backtrace {
    std::backtrace::Backtrace::disabled()
}
include!("/verif/build/kani-gen/core_root.playback.rs");
