// C05 U2: comparison kernels incl. NULL handling; C02/C06 U1: ComparisonOperator::{flip, negate}
use super::*;
use crate::expr::comparison_expr::ComparisonOperator;
use crate::verif_kani::with_put1;
include!("/verif/build/kani-gen/comparison.kernels.rs");

//@fn functions/scalar/builtin/comparison.rs ComparisonOperation::compare for Eq/NotEq/Lt/LtEq/Gt/GtEq Operation
//@fn functions/scalar/builtin/comparison.rs DistinctComparisonOperation::{compare_nullable, compare_non_nullable} for IsDistinctFrom / IsNotDistinctFrom / NullCoercedComparison<C>
//@fn expr/comparison_expr.rs ComparisonOperator::flip
//@fn expr/comparison_expr.rs ComparisonOperator::negate

// Specification order, written from two primitives only (lt, eq) so that a swapped operator in
// an impl cannot be mirrored by the spec.
trait Spec: Copy + PartialEq + PartialOrd {
    fn lt(self, o: Self) -> bool { self < o }
    fn eq_(self, o: Self) -> bool { self == o }
}
impl Spec for i8 {}
impl Spec for u8 {}
impl Spec for i64 {}
impl Spec for u64 {}
impl Spec for i128 {}
impl Spec for f32 {}
impl Spec for f64 {}
// Kani 0.68 mis-models `<` on bool; write FALSE < TRUE out.
// (bool instances are therefore only checked for Eq / NotEq / DISTINCT, where no ordering operator is executed.)

fn spec_op<T: Spec>(op: u8, a: T, b: T) -> bool {
    match op {
        0 => a.eq_(b),
        1 => !a.eq_(b),
        2 => a.lt(b),
        3 => a.lt(b) || a.eq_(b),
        4 => b.lt(a),
        _ => b.lt(a) || a.eq_(b),
    }
}

macro_rules! cmp_kernels {
    ($name:ident, $S:ty, $t:ty, $any_a:expr, $any_b:expr) => {
        #[kani::proof]
        fn $name() {
            let a: $t = $any_a;
            let b: $t = $any_b;
            kani::cover!(spec_op(2, a, b));
            kani::cover!(spec_op(0, a, b));
            let (v, ok) = with_put1!(bool, false, |buf| k_flat_cmp::<EqOperation, $S>(&a, &b, buf));
            assert!(ok && v == spec_op(0, a, b), "= kernel");
            let (v, ok) = with_put1!(bool, false, |buf| k_flat_cmp::<NotEqOperation, $S>(&a, &b, buf));
            assert!(ok && v == spec_op(1, a, b), "<> kernel");
            let (v, ok) = with_put1!(bool, false, |buf| k_flat_cmp::<LtOperation, $S>(&a, &b, buf));
            assert!(ok && v == spec_op(2, a, b), "< kernel");
            let (v, ok) = with_put1!(bool, false, |buf| k_flat_cmp::<LtEqOperation, $S>(&a, &b, buf));
            assert!(ok && v == spec_op(3, a, b), "<= kernel");
            let (v, ok) = with_put1!(bool, false, |buf| k_flat_cmp::<GtOperation, $S>(&a, &b, buf));
            assert!(ok && v == spec_op(4, a, b), "> kernel");
            let (v, ok) = with_put1!(bool, false, |buf| k_flat_cmp::<GtEqOperation, $S>(&a, &b, buf));
            assert!(ok && v == spec_op(5, a, b), ">= kernel");
        }
    };
}
cmp_kernels!(c05_cmp_i8__def, PhysicalI8, i8, kani::any(), kani::any());
cmp_kernels!(c05_cmp_u8__def, PhysicalU8, u8, kani::any(), kani::any());
cmp_kernels!(c05_cmp_i64__def, PhysicalI64, i64, kani::any(), kani::any());
cmp_kernels!(c05_cmp_u64__def, PhysicalU64, u64, kani::any(), kani::any());
cmp_kernels!(c05_cmp_i128__def, PhysicalI128, i128, kani::any(), kani::any());
// floats: IEEE predicates; with a NaN operand every operator except <> is false
cmp_kernels!(c05_cmp_f32__def, PhysicalF32, f32, kani::any(), kani::any());
cmp_kernels!(c05_cmp_f64__def, PhysicalF64, f64, kani::any(), kani::any());

#[kani::proof]
fn c05_cmp_decimal__def() {
    let a: i64 = kani::any();
    let b: i64 = kani::any();
    kani::cover!(a < b);
    let (v, ok) = with_put1!(bool, false, |buf| k_dec_cmp::<LtOperation, Decimal64Type>(&a, &b, buf));
    assert!(ok && v == (a < b));
    let (v, ok) = with_put1!(bool, false, |buf| k_dec_cmp::<GtEqOperation, Decimal64Type>(&a, &b, buf));
    assert!(ok && v == !(a < b));
    let (v, ok) = with_put1!(bool, false, |buf| k_dec_cmp::<EqOperation, Decimal64Type>(&a, &b, buf));
    assert!(ok && v == (a == b));
}

#[kani::proof]
fn c05_cmp_bool__eq_def() {
    let a: bool = kani::any();
    let b: bool = kani::any();
    kani::cover!(a != b);
    let (v, ok) = with_put1!(bool, false, |buf| k_flat_cmp::<EqOperation, PhysicalBool>(&a, &b, buf));
    assert!(ok && v == (a == b));
    let (v, ok) = with_put1!(bool, false, |buf| k_flat_cmp::<NotEqOperation, PhysicalBool>(&a, &b, buf));
    assert!(ok && v == (a != b));
}

// evaluation of an operator on possibly-NULL operands through the REAL nullable kernels.
// This is the table `ComparisonOperator -> FUNCTION_SET_* -> *Operation` of comparison_expr.rs /
// comparison.rs written once more; NULL -> false is "no match" (join / filter semantics).
fn eval<T: PartialEq + PartialOrd>(op: ComparisonOperator, a: Option<T>, b: Option<T>) -> bool {
    match op {
        ComparisonOperator::Eq => NullCoercedComparison::<EqOperation>::compare_nullable(a, b),
        ComparisonOperator::NotEq => NullCoercedComparison::<NotEqOperation>::compare_nullable(a, b),
        ComparisonOperator::Lt => NullCoercedComparison::<LtOperation>::compare_nullable(a, b),
        ComparisonOperator::LtEq => NullCoercedComparison::<LtEqOperation>::compare_nullable(a, b),
        ComparisonOperator::Gt => NullCoercedComparison::<GtOperation>::compare_nullable(a, b),
        ComparisonOperator::GtEq => NullCoercedComparison::<GtEqOperation>::compare_nullable(a, b),
        ComparisonOperator::IsDistinctFrom => IsDistinctFromOperation::compare_nullable(a, b),
        ComparisonOperator::IsNotDistinctFrom => IsNotDistinctFromOperation::compare_nullable(a, b),
    }
}

fn any_op() -> ComparisonOperator {
    let k: u8 = kani::any();
    kani::assume(k < 8);
    match k {
        0 => ComparisonOperator::Eq,
        1 => ComparisonOperator::NotEq,
        2 => ComparisonOperator::Lt,
        3 => ComparisonOperator::LtEq,
        4 => ComparisonOperator::Gt,
        5 => ComparisonOperator::GtEq,
        6 => ComparisonOperator::IsDistinctFrom,
        _ => ComparisonOperator::IsNotDistinctFrom,
    }
}

// NULL handling of the nullable kernels, per SQL: a comparison with a NULL operand is not true;
// IS [NOT] DISTINCT FROM treats NULL as a value.
#[kani::proof]
fn c05c06c07_cmp_nullable__def() {
    let a: Option<i8> = kani::any();
    let b: Option<i8> = kani::any();
    let op = any_op();
    kani::cover!(a.is_none() && b.is_some());
    kani::cover!(a.is_none() && b.is_none());
    let r = eval(op, a, b);
    match (a, b) {
        (Some(x), Some(y)) => {
            let expect = match op {
                ComparisonOperator::Eq | ComparisonOperator::IsNotDistinctFrom => x == y,
                ComparisonOperator::NotEq | ComparisonOperator::IsDistinctFrom => x != y,
                ComparisonOperator::Lt => x < y,
                ComparisonOperator::LtEq => x < y || x == y,
                ComparisonOperator::Gt => y < x,
                ComparisonOperator::GtEq => y < x || x == y,
            };
            assert!(r == expect, "non-NULL operands");
        }
        (None, None) => assert!(r == matches!(op, ComparisonOperator::IsNotDistinctFrom), "NULL vs NULL: only IS NOT DISTINCT FROM is true"),
        _ => assert!(r == matches!(op, ComparisonOperator::IsDistinctFrom), "NULL vs value: only IS DISTINCT FROM is true"),
    }
    // compare_non_nullable agrees with compare_nullable on non-NULLs
    if let (Some(x), Some(y)) = (a, b) {
        assert!(IsDistinctFromOperation::compare_non_nullable(x, y) == (x != y));
        assert!(IsNotDistinctFromOperation::compare_non_nullable(x, y) == (x == y));
        assert!(NullCoercedComparison::<LtOperation>::compare_non_nullable(x, y) == (x < y));
    }
}

// `a op b` == `b flip(op) a` for all operands incl. NULL: what filter pushdown / join planning
// rely on when they swap the sides of a condition.
#[kani::proof]
fn c02c06_flip__equivalent() {
    let a: Option<i8> = kani::any();
    let b: Option<i8> = kani::any();
    let op = any_op();
    kani::cover!(matches!(op, ComparisonOperator::IsNotDistinctFrom) && a.is_none());
    assert!(eval(op, a, b) == eval(op.flip(), b, a), "flip() changes the meaning of the comparison");
    assert!(op.flip().flip() == op, "flip() is not an involution");
}

// `NOT (a op b)` == `a negate(op) b` for non-NULL operands, and for the DISTINCT pair also with NULLs.
#[kani::proof]
fn c02c06_negate__complement() {
    let a: Option<i8> = kani::any();
    let b: Option<i8> = kani::any();
    let op = any_op();
    kani::cover!(a.is_some() && b.is_some());
    let distinct = matches!(op, ComparisonOperator::IsDistinctFrom | ComparisonOperator::IsNotDistinctFrom);
    if (a.is_some() && b.is_some()) || distinct {
        assert!(eval(op.negate(), a, b) == !eval(op, a, b), "negate() is not the complement");
    }
    assert!(op.negate().negate() == op);
}

// C05 / C06 (bounded stand-in, native): IS [NOT] DISTINCT FROM on real arrays in every layout.  `binary_distinct_execute`
// has its own loop over validity masks and dictionary selections (it does not go through the generic executors): for
// every pair of input layouts (flat, dictionary-selected with reordering / repetition, selected twice, constant,
// constant NULL -- all of logical length 4, with and without NULLs) and every row selection (identity, reversed, a
// subset with a repeat), output position k equals the SQL definition applied to the LOGICAL values of row sel[k]:
//   a IS DISTINCT FROM b  =  (a, b both NULL -> false; exactly one NULL -> true; otherwise a <> b).
fn distinct_layouts() -> Vec<(String, Array)> {
    use crate::arrays::scalar::BorrowedScalarValue;
    use crate::buffer::buffer_manager::DefaultBufferManager;
    use crate::util::iter::TryFromExactSizeIterator;
    let mut out: Vec<(String, Array)> = Vec::new();
    out.push(("flat no NULL".to_string(), Array::try_from_iter(vec![1i32, 2, 3, 1]).unwrap()));
    out.push(("flat with NULL".to_string(), Array::try_from_iter(vec![Some(1i32), None, Some(3), Some(2)]).unwrap()));
    let base = vec![Some(0i32), Some(1), None, Some(2), Some(3), None];
    for sel in [vec![5usize, 1, 3, 2], vec![1, 1, 2, 0], vec![3, 4, 0, 1], vec![2, 5, 2, 4]] {
        let mut a = Array::try_from_iter(base.clone()).unwrap();
        a.select(&DefaultBufferManager, sel.clone()).unwrap();
        out.push((format!("dictionary {sel:?} over {base:?}"), a));
    }
    let mut a = Array::try_from_iter(base.clone()).unwrap();
    a.select(&DefaultBufferManager, vec![4usize, 2, 1, 0, 3]).unwrap();
    a.select(&DefaultBufferManager, vec![3usize, 0, 1, 4]).unwrap();
    out.push(("selected twice".to_string(), a));
    out.push(("constant 2".to_string(), Array::new_constant(&DefaultBufferManager, &BorrowedScalarValue::Int32(2), 4).unwrap()));
    out.push(("constant NULL".to_string(), Array::new_null(&DefaultBufferManager, DataType::int32(), 4).unwrap()));
    out
}

#[test]
fn c05c06_distinct_comparison__layout_independent_definition__nat() {
    use crate::arrays::scalar::BorrowedScalarValue;
    use crate::buffer::buffer_manager::DefaultBufferManager;
    let logical = |arr: &Array| -> Vec<Option<i32>> {
        (0..arr.logical_len())
            .map(|i| match arr.get_value(i).unwrap() {
                BorrowedScalarValue::Null => None,
                BorrowedScalarValue::Int32(v) => Some(v),
                _ => panic!("unexpected value"),
            })
            .collect()
    };
    let sels: [Vec<usize>; 3] = [vec![0, 1, 2, 3], vec![3, 2, 1, 0], vec![2, 0, 2]];
    let mut cases = 0usize;
    for (ln, l) in distinct_layouts() {
        for (rn, r) in distinct_layouts() {
            let (lv, rv) = (logical(&l), logical(&r));
            assert!(lv.len() == 4 && rv.len() == 4);
            for sel in &sels {
                for not in [false, true] {
                    let mut out = Array::new(&DefaultBufferManager, DataType::boolean(), sel.len()).unwrap();
                    if not {
                        binary_distinct_execute::<IsNotDistinctFromOperation, PhysicalI32>(&l, &r, sel.iter().copied(), OutBuffer::from_array(&mut out).unwrap()).unwrap();
                    } else {
                        binary_distinct_execute::<IsDistinctFromOperation, PhysicalI32>(&l, &r, sel.iter().copied(), OutBuffer::from_array(&mut out).unwrap()).unwrap();
                    }
                    for (k, &row) in sel.iter().enumerate() {
                        let distinct = match (lv[row], rv[row]) {
                            (None, None) => false,
                            (None, _) | (_, None) => true,
                            (Some(a), Some(b)) => a != b,
                        };
                        let want = if not { !distinct } else { distinct };
                        let got = match out.get_value(k).unwrap() {
                            BorrowedScalarValue::Boolean(b) => Some(b),
                            _ => None,
                        };
                        assert!(
                            got == Some(want),
                            "{:?} IS {}DISTINCT FROM {:?} is {got:?} (left layout: {ln}, right layout: {rn}, row {row} at output position {k} of selection {sel:?})",
                            lv[row],
                            if not { "NOT " } else { "" },
                            rv[row]
                        );
                        cases += 1;
                    }
                }
            }
        }
    }
    assert!(cases == 9 * 9 * (4 + 4 + 3) * 2);
}

//@fn functions/scalar/builtin/comparison.rs binary_distinct_execute (IS [NOT] DISTINCT FROM loop over validity masks and dictionary selections)

include!("/verif/build/kani-gen/comparison.playback.rs");
