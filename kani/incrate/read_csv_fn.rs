// C17 / C11 (bounded stand-in, native; NOT a proof): the whole `read_csv` table function -- bind (dialect + header +
// type inference on the 4096-byte sample), partition-state creation and the pull loop -- on an in-memory file system.
//   * types: files LONGER than the inference sample whose columns hold values of one kind each (boolean / integer /
//     float / text) are typed by that kind, and the header names are used (generated names and the first record kept as
//     data when both columns are text: the header decision the reader infers), wherever byte 4096 happens to cut the file
//     (header lengths 1..=12 move the cut through every position of a record: inside each field, on the delimiter, on the
//     newline); a partial record at the end of the sample is not a sampled value.
//   * rows: every record of the file comes back once, typed, for partition counts 1, 2, 3 (a single file goes to exactly
//     one partition), and for two files given as a list every file is read exactly once across the partitions.
use glaredb_core::arrays::scalar::BorrowedScalarValue;
use glaredb_core::buffer::buffer_manager::DefaultBufferManager;
use glaredb_core::runtime::filesystem::dispatch::FileSystemDispatch;
use glaredb_core::runtime::filesystem::memory::MemoryFileSystem;
use glaredb_core::util::task::noop_context;

use super::*;

//@fn functions/read_csv.rs ReadCsv::{bind, create_pull_operator_state, create_pull_partition_states, poll_pull}
//@fn schema.rs CsvSchema::infer_from_records (as driven by bind)

fn block_on<F: std::future::Future>(fut: F) -> F::Output {
    let mut fut = std::pin::pin!(fut);
    let mut polls = 0;
    loop {
        match fut.as_mut().poll(&mut noop_context()) {
            Poll::Ready(v) => return v,
            Poll::Pending => {
                polls += 1;
                assert!(polls < 10_000, "future on the memory file system never completes");
            }
        }
    }
}

#[derive(Debug, Clone, PartialEq)]
enum V {
    Null,
    B(bool),
    I(i64),
    F(f64),
    S(String),
}

fn scan_all(files: &[(&str, String)], path_arg: glaredb_core::expr::Expression, partitions: usize) -> Result<(Vec<(String, DataTypeId)>, Vec<Vec<Vec<V>>>)> {
    let fs = MemoryFileSystem::new(&DefaultBufferManager);
    for (name, content) in files {
        fs.insert(*name, content.as_bytes())?;
    }
    let mut dispatch = FileSystemDispatch::empty();
    dispatch.register_filesystem(fs);
    let db = glaredb_core::testutil::database_context::test_db_context();
    let input = TableFunctionInput::all_unnamed([path_arg]);
    let bind = block_on(ReadCsv::bind(ScanContext { database_context: &db, dispatch: &dispatch }, input))?;
    let schema: Vec<(String, DataTypeId)> = bind.data_schema.fields.iter().map(|f| (f.name.clone(), f.datatype.id())).collect();
    let ncols = schema.len();
    let props = ExecutionProperties { batch_size: 64 };
    let op = ReadCsv::create_pull_operator_state(&bind.state, Projections::new(0..ncols), &[], props)?;
    let mut parts = ReadCsv::create_pull_partition_states(&bind.state, &op, props, partitions)?;
    assert_eq!(parts.len(), partitions, "read_csv created a wrong number of partition states");
    let types: Vec<_> = bind.data_schema.fields.iter().map(|f| f.datatype.clone()).collect();
    let mut out = Vec::new();
    for p in parts.iter_mut() {
        let mut rows = Vec::new();
        let mut polls = 0;
        loop {
            let mut batch = Batch::new(types.clone(), 64)?;
            let poll = ReadCsv::poll_pull(&mut noop_context(), &bind.state, &op, p, &mut batch)?;
            for r in 0..batch.num_rows() {
                let mut row = Vec::new();
                for c in 0..ncols {
                    row.push(match batch.arrays()[c].get_value(r)? {
                        BorrowedScalarValue::Null => V::Null,
                        BorrowedScalarValue::Boolean(b) => V::B(b),
                        BorrowedScalarValue::Int64(v) => V::I(v),
                        BorrowedScalarValue::Float64(v) => V::F(v),
                        BorrowedScalarValue::Utf8(s) => V::S(s.to_string()),
                        other => panic!("unexpected value {other:?}"),
                    });
                }
                rows.push(row);
            }
            match poll {
                PollPull::Exhausted => break,
                PollPull::HasMore => (),
                PollPull::Pending => (),
            }
            polls += 1;
            assert!(polls < 100_000, "read_csv does not terminate");
        }
        out.push(rows);
    }
    Ok((schema, out))
}

fn field(kind: usize, i: usize) -> (String, V) {
    match kind {
        0 => {
            let b = i % 3 != 0;
            (format!("{b}"), V::B(b))
        }
        1 => {
            let v = 1000 + i as i64;
            (format!("{v}"), V::I(v))
        }
        2 => {
            let v = 1000.0 + i as f64 + 0.5;
            (format!("{v:.1}"), V::F(v))
        }
        _ => {
            let s = format!("w{}x", 100 + i);
            (s.clone(), V::S(s))
        }
    }
}

const KINDS: [DataTypeId; 4] = [DataTypeId::Boolean, DataTypeId::Int64, DataTypeId::Float64, DataTypeId::Utf8];

fn make_file(header_pad: usize, k0: usize, k1: usize, nrows: usize) -> (String, String, Vec<Vec<V>>) {
    let h0 = format!("c{}", "a".repeat(header_pad));
    let mut s = format!("{h0},second\n");
    let mut rows = Vec::new();
    for i in 0..nrows {
        let (t0, v0) = field(k0, i);
        let (t1, v1) = field(k1, i);
        s.push_str(&t0);
        s.push(',');
        s.push_str(&t1);
        s.push('\n');
        rows.push(vec![v0, v1]);
    }
    (h0, s, rows)
}

#[test]
fn c17_read_csv_fn__types_and_rows_independent_of_sample_cut__nat() {
    let mut cases = 0usize;
    let mut cut_kinds = std::collections::BTreeSet::new();
    for k0 in 0..4usize {
        for k1 in 0..4usize {
            for pad in 0..12usize {
                let (h0, content, want_rows) = make_file(pad, k0, k1, 600);
                assert!(content.len() > 4096 + 64);
                // where does the sample end?
                let b = content.as_bytes();
                cut_kinds.insert(match (b[4095], b[4096]) {
                    (b'\n', _) => 0,
                    (_, b'\n') => 1,
                    (b',', _) => 2,
                    (_, b',') => 3,
                    _ => 4,
                });
                for partitions in [1usize, 3] {
                    let (schema, rows) = match scan_all(&[("f.csv", content.clone())], glaredb_core::expr::lit("f.csv").into(), partitions) {
                        Ok(v) => v,
                        Err(e) => panic!("read_csv failed on a valid file (columns {:?},{:?}, header pad {pad}, {partitions} partitions): {}", KINDS[k0], KINDS[k1], e.to_string().lines().next().unwrap_or("")),
                    };
                    // the header decision the reader infers: a first record of text over text columns is data
                    let header = !(k0 == 3 && k1 == 3);
                    let want_schema = if header {
                        vec![(h0.clone(), KINDS[k0]), ("second".to_string(), KINDS[k1])]
                    } else {
                        vec![("column0".to_string(), KINDS[k0]), ("column1".to_string(), KINDS[k1])]
                    };
                    let mut want_rows = want_rows.clone();
                    if !header {
                        want_rows.insert(0, vec![V::S(h0.clone()), V::S("second".to_string())]);
                    }
                    assert!(
                        schema == want_schema,
                        "read_csv types depend on where the inference sample cuts the file: columns of {:?} / {:?} values, header pad {pad} (sample ends with {:?}) are typed {schema:?}, expected {want_schema:?}",
                        KINDS[k0], KINDS[k1], String::from_utf8_lossy(&b[4080..4096])
                    );
                    let non_empty: Vec<&Vec<Vec<V>>> = rows.iter().filter(|r| !r.is_empty()).collect();
                    assert!(non_empty.len() == 1, "a single file was read by {} partitions", non_empty.len());
                    assert!(
                        non_empty[0] == &want_rows,
                        "read_csv rows differ from the file's records: columns {:?} / {:?}, header pad {pad}, {partitions} partitions: got {} rows, first {:?}, expected {} rows, first {:?}",
                        KINDS[k0], KINDS[k1], non_empty[0].len(), non_empty[0].first(), want_rows.len(), want_rows.first()
                    );
                    cases += 1;
                }
            }
        }
    }
    assert!(cut_kinds.len() == 5, "the family does not move the sample cut through every position: {cut_kinds:?}");
    assert!(cases == 4 * 4 * 12 * 2);
}

#[test]
fn c11_read_csv_fn__file_list_reads_each_file_once__nat() {
    use glaredb_core::expr;
    let mut cases = 0usize;
    for nfiles in 1..=4usize {
        let files: Vec<(String, String, Vec<Vec<V>>)> = (0..nfiles)
            .map(|f| {
                let mut s = String::from("id,name\n");
                let mut rows = Vec::new();
                for i in 0..(3 + f * 2) {
                    let id = (f * 100 + i) as i64;
                    s.push_str(&format!("{id},n{id}\n"));
                    rows.push(vec![V::I(id), V::S(format!("n{id}"))]);
                }
                (format!("f{f}.csv"), s, rows)
            })
            .collect();
        let mem: Vec<(&str, String)> = files.iter().map(|(n, c, _)| (n.as_str(), c.clone())).collect();
        let mut want: Vec<Vec<V>> = files.iter().flat_map(|(_, _, r)| r.clone()).collect();
        want.sort_by(|a, b| format!("{a:?}").cmp(&format!("{b:?}")));
        for partitions in 1..=5usize {
            let list = expr::lit(glaredb_core::arrays::scalar::ScalarValue::List(
                files.iter().map(|(n, _, _)| glaredb_core::arrays::scalar::ScalarValue::from(n.clone())).collect(),
            ));
            let (_, rows) = match scan_all(&mem, list.into(), partitions) {
                Ok(v) => v,
                Err(e) => panic!("read_csv over a list of {nfiles} files with {partitions} partitions failed: {}", e.to_string().lines().next().unwrap_or("")),
            };
            let mut got: Vec<Vec<V>> = rows.into_iter().flatten().collect();
            got.sort_by(|a, b| format!("{a:?}").cmp(&format!("{b:?}")));
            assert!(
                got == want,
                "scanning a list of {nfiles} CSV files with {partitions} partitions is not the union of the files, each once: got {} rows, expected {}",
                got.len(), want.len()
            );
            cases += 1;
        }
    }
    assert!(cases == 20);
}

// C19 (bounded stand-in, native; NOT a proof): malformed CSV files through the whole table function (dialect / header /
// type inference at bind, then the scan): invalid UTF-8 at every field position of the first three records (lone
// continuation byte, truncated 2- and 3-byte sequences, 0xff), NUL bytes, an unterminated quoted field, a quote in the
// middle of a field, ragged records, an empty file, a file of newlines only, a lone CR.  Every file is bound and
// read to the end: the result is rows or an error, never a panic, and the scan returns.
fn scan_bytes(content: &[u8]) -> Result<usize> {
    let fs = MemoryFileSystem::new(&DefaultBufferManager);
    fs.insert("m.csv", content)?;
    let mut dispatch = FileSystemDispatch::empty();
    dispatch.register_filesystem(fs);
    let db = glaredb_core::testutil::database_context::test_db_context();
    let input = TableFunctionInput::all_unnamed([glaredb_core::expr::Expression::from(glaredb_core::expr::lit("m.csv"))]);
    let bind = block_on(ReadCsv::bind(ScanContext { database_context: &db, dispatch: &dispatch }, input))?;
    let ncols = bind.data_schema.fields.len();
    let props = ExecutionProperties { batch_size: 4 };
    let op = ReadCsv::create_pull_operator_state(&bind.state, Projections::new(0..ncols), &[], props)?;
    let mut parts = ReadCsv::create_pull_partition_states(&bind.state, &op, props, 1)?;
    let types: Vec<_> = bind.data_schema.fields.iter().map(|f| f.datatype.clone()).collect();
    let mut rows = 0;
    let mut polls = 0;
    loop {
        let mut batch = Batch::new(types.clone(), 4)?;
        let poll = ReadCsv::poll_pull(&mut noop_context(), &bind.state, &op, &mut parts[0], &mut batch)?;
        rows += batch.num_rows();
        if poll == PollPull::Exhausted {
            return Ok(rows);
        }
        polls += 1;
        assert!(polls < 10_000, "read_csv does not terminate on a malformed file");
    }
}

#[test]
fn c19_read_csv_fn__malformed_files_error_or_rows_never_panic__nat() {
    let mut family: Vec<(String, Vec<u8>)> = Vec::new();
    let bases: [&[u8]; 3] = [b"id,name,v\n1,ab,2\n3,cd,4\n", b"x,y,z\nd,e,f\ng,h,i\n", b"1,2.5,true\n2,3.5,false\n3,4.5,true\n"];
    let bad: [&[u8]; 5] = [b"\x80", b"\xc3", b"\xe2\x82", b"\xff", b"\x00"];
    for base in bases {
        // positions where a field starts or ends, and the middle of fields
        for pos in 0..=base.len() {
            for b in bad {
                let mut f = base[..pos].to_vec();
                f.extend_from_slice(b);
                f.extend_from_slice(&base[pos..]);
                family.push((format!("{:?} inserted at byte {pos} of {:?}", b, String::from_utf8_lossy(base)), f));
            }
        }
        for cut in 0..base.len() {
            family.push((format!("{:?} truncated to {cut} bytes", String::from_utf8_lossy(base)), base[..cut].to_vec()));
        }
    }
    for (what, f) in [
        ("unterminated quoted field", &b"a,b\n\"xy,1\n2,3\n"[..]),
        ("quote in the middle of a field", &b"a,b\nx\"y,1\n"[..]),
        ("ragged records", &b"a,b,c\n1,2\n3,4,5,6\n"[..]),
        ("ragged first record", &b"a\n1,2\n3,4\n"[..]),
        ("empty file", &b""[..]),
        ("newlines only", &b"\n\n\n"[..]),
        ("lone CR", &b"\r"[..]),
        ("CRs only", &b"a,b\r1,2\r3,4\r"[..]),
        ("only delimiters", &b",,,\n,,,\n"[..]),
        ("only quotes", &b"\"\"\"\"\"\n"[..]),
        ("BOM then header", &b"\xef\xbb\xbfid,v\n1,2\n"[..]),
        ("invalid UTF-8 header, numeric body", &b"\xffid,v\n1,2\n3,4\n"[..]),
        ("invalid UTF-8 second header field after text", &b"a,\xc3(,c\nd,e,f\nx,y,z\n"[..]),
    ] {
        family.push((what.to_string(), f.to_vec()));
    }
    assert!(family.len() > 400);
    let mut oks = 0usize;
    for (what, f) in &family {
        let bytes = f.clone();
        match std::panic::catch_unwind(move || scan_bytes(&bytes).map_err(|e| e.to_string())) {
            Ok(Ok(_)) => oks += 1,
            Ok(Err(_)) => (),
            Err(p) => {
                let msg = p.downcast_ref::<String>().cloned().or_else(|| p.downcast_ref::<&str>().map(|s| s.to_string())).unwrap_or_default();
                panic!("malformed CSV file crashed read_csv ({what}): {}", msg.lines().next().unwrap_or(""));
            }
        }
    }
    assert!(oks > 50, "only {oks} files of the family were readable: the family is not exercising the scan");
}
