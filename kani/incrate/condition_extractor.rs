// C06 / C02 (bounded stand-in, native; NOT a proof): the join-condition extractor -- used by the planner for every
// `JOIN .. ON` and by filter pushdown when it turns a filtered cross product into a join -- neither loses nor invents
// nor misplaces a condition.  `Expression` is a large heap-allocated enum (Box / Vec / bound functions): out of reach of
// Verus and CBMC, so the real `JoinConditionExtractor::extract` is run on a stated finite family:
//   conjunct shapes (12): L = R, R < L (must be flipped), L-only and R-only comparisons and non-comparisons, a constant
//       comparison, comparisons with BOTH sides under one operand ((l.a + r.a) = l.b, l.b >= (l.a + r.a)) or under both,
//       a disjunction over both sides
//   inputs: every single shape, every ordered pair of shapes as two list entries, and every ordered pair as ONE
//       `x AND y` entry (split on AND)                                   x all 7 join types
// Specification (from the definition of the join types):
//   * conservation: every conjunct of the ON clause occurs in exactly one of comparisons / arbitrary / left_filter /
//     right_filter, nothing else does (a comparison condition counts as its conjunct when it is the same comparison or
//     the mirrored one with the operator flipped);
//   * a comparison condition has its left operand over the left input only and its right operand over the right only;
//   * a pre-join filter on the left input only references the left input and is only produced for join types whose
//     unmatched left rows are not output (INNER, RIGHT, SEMI); one on the right input only references the right input
//     and is not produced for RIGHT / FULL joins (which output unmatched right rows).
use super::*;
use crate::arrays::datatype::DataType;
use crate::expr;
use crate::logical::binder::table_list::TableRef;

//@fn optimizer/filter_pushdown/condition_extractor.rs JoinConditionExtractor::extract, ExprJoinSide::{try_from_expr, combine}

fn lcol(c: usize) -> Expression {
    expr::column((TableRef { table_idx: 0 }, c), DataType::int32())
}
fn rcol(c: usize) -> Expression {
    expr::column((TableRef { table_idx: 1 }, c), DataType::int32())
}

fn shape(k: usize) -> Expression {
    match k {
        0 => expr::eq(lcol(0), rcol(0)).unwrap().into(),
        1 => expr::lt(rcol(1), lcol(1)).unwrap().into(),
        2 => expr::eq(lcol(0), expr::lit(1)).unwrap().into(),
        3 => expr::gt(rcol(0), expr::lit(2)).unwrap().into(),
        4 => expr::eq(expr::lit(1), expr::lit(1)).unwrap().into(),
        5 => expr::eq(expr::add(lcol(0), rcol(0)).unwrap(), lcol(1)).unwrap().into(),
        6 => expr::gt_eq(lcol(1), expr::add(lcol(0), rcol(0)).unwrap()).unwrap().into(),
        7 => expr::eq(expr::add(lcol(0), rcol(1)).unwrap(), expr::add(rcol(0), lcol(1)).unwrap()).unwrap().into(),
        8 => expr::or([expr::eq(lcol(0), rcol(0)).unwrap().into(), expr::eq(lcol(1), rcol(1)).unwrap().into()]).unwrap().into(),
        9 => expr::or([expr::eq(lcol(0), expr::lit(1)).unwrap().into(), expr::eq(lcol(1), expr::lit(2)).unwrap().into()]).unwrap().into(),
        10 => expr::or([expr::eq(rcol(0), expr::lit(1)).unwrap().into(), expr::eq(rcol(1), expr::lit(2)).unwrap().into()]).unwrap().into(),
        _ => expr::lt_eq(lcol(0), lcol(1)).unwrap().into(),
    }
}
const SHAPES: usize = 12;

fn refs_only(e: &Expression, table: usize) -> bool {
    match e {
        Expression::Column(c) => c.reference.table_scope.table_idx == table,
        other => {
            let mut ok = true;
            other
                .for_each_child(|c| {
                    ok = ok && refs_only(c, table);
                    Ok(())
                })
                .unwrap();
            ok
        }
    }
}

fn check(join_type: JoinType, input: Vec<Expression>, conjuncts: &[Expression], what: &str) {
    let left = vec![TableRef { table_idx: 0 }];
    let right = vec![TableRef { table_idx: 1 }];
    let ex = JoinConditionExtractor::new(&left, &right, join_type);
    let got = match ex.extract(input) {
        Ok(g) => g,
        Err(e) => panic!("extracting join conditions failed for {what} ({join_type:?}): {}", e.to_string().lines().next().unwrap_or("")),
    };
    // everything the extractor returned, as expressions (+ the mirrored form of the comparison conditions)
    let mut out: Vec<(Expression, Option<Expression>, &str)> = Vec::new();
    for c in &got.comparisons {
        assert!(
            refs_only(&c.left, 0) && refs_only(&c.right, 1),
            "join condition with operands on the wrong sides for {what} ({join_type:?}): {} {} {}", c.left, c.op, c.right
        );
        let same = Expression::Comparison(ComparisonExpr { left: c.left.clone(), right: c.right.clone(), op: c.op });
        let mirrored = Expression::Comparison(ComparisonExpr { left: c.right.clone(), right: c.left.clone(), op: c.op.flip() });
        out.push((same, Some(mirrored), "comparisons"));
    }
    for e in &got.arbitrary {
        out.push((e.clone(), None, "arbitrary"));
    }
    for e in &got.left_filter {
        assert!(refs_only(e, 0), "pre-join filter on the left input references another table for {what} ({join_type:?}): {e}");
        assert!(
            matches!(join_type, JoinType::Inner | JoinType::Right | JoinType::LeftSemi),
            "ON condition {e} of a {join_type:?} join was turned into a filter on the LEFT input ({what}): left rows failing it must still be output"
        );
        out.push((e.clone(), None, "left_filter"));
    }
    for e in &got.right_filter {
        assert!(refs_only(e, 1), "pre-join filter on the right input references another table for {what} ({join_type:?}): {e}");
        assert!(
            !matches!(join_type, JoinType::Right | JoinType::Full),
            "ON condition {e} of a {join_type:?} join was turned into a filter on the RIGHT input ({what}): right rows failing it must still be output"
        );
        out.push((e.clone(), None, "right_filter"));
    }
    // conservation
    let mut used = vec![false; out.len()];
    for c in conjuncts {
        let hit = out.iter().enumerate().position(|(i, (a, b, _))| !used[i] && (a == c || b.as_ref() == Some(c)));
        match hit {
            Some(i) => used[i] = true,
            None => panic!(
                "join condition lost: conjunct `{c}` of {what} ({join_type:?}) is in none of comparisons / arbitrary / left_filter / right_filter (extracted: {} comparisons, {} arbitrary, {} left, {} right)",
                got.comparisons.len(), got.arbitrary.len(), got.left_filter.len(), got.right_filter.len()
            ),
        }
    }
    if let Some(i) = used.iter().position(|u| !u) {
        panic!("join condition invented: `{}` in {} is no conjunct of {what} ({join_type:?})", out[i].0, out[i].2);
    }
}

#[test]
fn c02c06_condition_extractor__every_conjunct_kept_once_and_legally_placed__nat() {
    let join_types = [
        JoinType::Inner,
        JoinType::Left,
        JoinType::Right,
        JoinType::Full,
        JoinType::LeftSemi,
        JoinType::LeftAnti,
        JoinType::LeftMark { table_ref: TableRef { table_idx: 7 } },
    ];
    let mut cases = 0usize;
    for jt in join_types {
        for a in 0..SHAPES {
            check(jt, vec![shape(a)], &[shape(a)], &format!("ON {}", shape(a)));
            cases += 1;
            for b in 0..SHAPES {
                if a == b {
                    continue;
                }
                let what = format!("ON {} AND {}", shape(a), shape(b));
                check(jt, vec![shape(a), shape(b)], &[shape(a), shape(b)], &what);
                check(jt, vec![expr::and([shape(a), shape(b)]).unwrap().into()], &[shape(a), shape(b)], &what);
                cases += 2;
            }
        }
    }
    assert!(cases == 7 * (12 + 2 * 12 * 11));
}
