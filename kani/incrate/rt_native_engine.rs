// C15 (bounded stand-in, native; NOT a proof): statements through the WHOLE engine -- parser, resolver, binder, planner,
// optimizer, physical planning and the native executor with two worker threads (`SingleUserEngine` over
// `ThreadedNativeExecutor`).  Every statement of a stated finite family of syntactically valid but unusual statements
// (ragged VALUES, set operations of different widths, out-of-range ordinals in ORDER BY / GROUP BY, negative / huge LIMIT
// and OFFSET, duplicate and surplus aliases, unknown names, wrong argument counts, odd casts and type parameters, odd SET
// / SHOW / RESET values, DESCRIBE / EXPLAIN variants, duplicate DDL, wrong-arity DML, Unicode identifiers, long
// expressions, a failing plan-verification run) must
//   * finish within 60 s with a result or an error, without killing the process (a panic on a worker thread aborts it);
//   * if it fails, leave `enable_optimizer`, `enable_hash_joins`, `batch_size`, `partitions`, `verify_optimized_plan`
//     exactly as they were before it;
//   * leave the session usable: `SELECT 41 + 1` still answers 42 afterwards.
// The family runs in a CHILD PROCESS (this test binary re-invoked) that prints a progress line before each statement, so
// that an abort of the process is attributed to the statement that caused it.
// KNOWN-SHAPE: three statements that crash at the pinned commit (expression nesting deeper than ~150 levels: there is
// no recursion limit in parser / binder / planner; a CTE joined with itself trips an assertion of the join-reorder
// optimizer) run in children of their own and are tallied
// (see known_findings.json); a crash on any other statement is a violation.
use std::io::BufRead;
use std::time::Duration;

use glaredb_core::engine::single_user::SingleUserEngine;
use glaredb_error::{DbError, Result};

use crate::runtime::{NativeSystemRuntime, ThreadedNativeExecutor, new_tokio_runtime_for_io};

//@fn glaredb_core engine::single_user::SingleUserEngine::query + Session::{prepare, bind, execute} (driven end to end)

type Engine = SingleUserEngine<ThreadedNativeExecutor, NativeSystemRuntime>;

fn run(rt: &tokio::runtime::Runtime, engine: &Engine, sql: &str) -> Result<Vec<String>> {
    rt.block_on(async {
        let fut = async {
            let mut result = engine.session().query(sql).await?;
            let batches = result.output.collect().await?;
            let mut out = Vec::new();
            for batch in &batches {
                if batch.arrays().is_empty() {
                    continue;
                }
                for row in 0..batch.num_rows() {
                    let mut cols = Vec::new();
                    for arr in batch.arrays() {
                        cols.push(arr.get_value(row)?.to_string());
                    }
                    out.push(cols.join("|"));
                }
            }
            Ok::<_, DbError>(out)
        };
        match tokio::time::timeout(Duration::from_secs(60), fut).await {
            Ok(result) => result,
            Err(_) => panic!("statement did not finish within 60 s: {sql}"),
        }
    })
}

const SETTINGS: [&str; 5] = ["enable_optimizer", "enable_hash_joins", "batch_size", "partitions", "verify_optimized_plan"];

fn settings(rt: &tokio::runtime::Runtime, engine: &Engine) -> Vec<String> {
    SETTINGS
        .iter()
        .map(|s| match run(rt, engine, &format!("SHOW {s}")) {
            Ok(v) => v.join(","),
            Err(e) => panic!("SHOW {s} failed: {}", e.to_string().lines().next().unwrap_or("")),
        })
        .collect()
}

fn family() -> Vec<String> {
    let mut f: Vec<String> = [
        // VALUES / set operations of different widths
        "SELECT * FROM (VALUES (1), (2, 3)) v",
        "VALUES (1, 2), (3)",
        "VALUES ('a'), ('b', 'c'), ('d')",
        "SELECT * FROM (VALUES (NULL), (2, 3)) v",
        "SELECT * FROM (VALUES (1, 2), (3, 4)) v(a)",
        "SELECT * FROM (VALUES (1, 2)) v(a, b, c)",
        "SELECT 1 UNION ALL SELECT 2, 3",
        "SELECT 1, 2 UNION SELECT 3",
        "SELECT 1 UNION ALL SELECT 'a'",
        // ordinals, limits
        "SELECT 1 ORDER BY 2",
        "SELECT 1 ORDER BY 0",
        "SELECT 1 ORDER BY -1",
        "SELECT a FROM generate_series(1, 3) g(a) GROUP BY 5",
        "SELECT a FROM generate_series(1, 3) g(a) GROUP BY 0",
        "SELECT 1 LIMIT -1",
        "SELECT 1 OFFSET -5",
        "SELECT * FROM generate_series(1, 5) LIMIT 9223372036854775807 OFFSET 9223372036854775807",
        "SELECT * FROM generate_series(1, 5) ORDER BY 1 LIMIT 9223372036854775807 OFFSET 9223372036854775807",
        "SELECT * FROM generate_series(1, 5) LIMIT 18446744073709551615",
        "SELECT * FROM generate_series(1, 5) LIMIT 'a'",
        "SELECT * FROM generate_series(1, 5) LIMIT NULL",
        "SELECT * FROM generate_series(1, 5) LIMIT 1.5",
        // aliases and names
        "SELECT a FROM generate_series(1, 3) g(a, b, c)",
        "SELECT * FROM generate_series(1, 2) g(a), generate_series(1, 2) g(a)",
        "SELECT x.a FROM generate_series(1, 2) g(a)",
        "SELECT a, a FROM generate_series(1, 2) g(a) ORDER BY a",
        "SELECT 1 AS a, 2 AS a ORDER BY a",
        "SELECT * FROM nonexistent",
        "SELECT nonexistent(1)",
        "SELECT nonexistent.f(1)",
        "SELECT 1 AS \"\u{65e5}\u{672c}\", 2 AS \"a b\"",
        "SELECT \"\" FROM generate_series(1, 2) g(\"\")",
        "SELECT * FROM generate_series(1, 2) AS \"\u{1f600}\"(\"\u{e9}\")",
        // argument counts / types
        "SELECT sum()",
        "SELECT sum(1, 2)",
        "SELECT count(*, 1)",
        "SELECT abs()",
        "SELECT abs('a')",
        "SELECT substring('abc', -5, 2)",
        "SELECT repeat('x', -1)",
        "SELECT lpad('x', -3, 'y')",
        "SELECT NOT 1",
        "SELECT -'a'",
        "SELECT 1 BETWEEN 'a' AND 2",
        "SELECT CASE WHEN 1 THEN 2 END",
        "SELECT CASE WHEN true THEN 1 ELSE 'a' END",
        "SELECT 'a' || NULL",
        "SELECT 1 IN (SELECT 1, 2)",
        "SELECT (SELECT 1, 2)",
        "SELECT (SELECT a FROM generate_series(1, 2) g(a))",
        "SELECT count(*) FILTER (WHERE true) FROM generate_series(1, 3)",
        "SELECT sum(a) OVER () FROM generate_series(1, 3) g(a)",
        "SELECT a FROM generate_series(1, 3) g(a) HAVING a > 1",
        "SELECT sum(sum(a)) FROM generate_series(1, 3) g(a)",
        "SELECT a FROM generate_series(1, 3) g(a) WHERE sum(a) > 1",
        "SELECT * FROM generate_series(1, 0)",
        "SELECT * FROM generate_series(1, 10, 0)",
        "SELECT * FROM generate_series(1, 10, -1)",
        "SELECT * FROM generate_series('a', 'b')",
        "SELECT * FROM generate_series()",
        "SELECT * FROM unnest([1, 2]) u, unnest(['a']) v",
        "SELECT unnest([1, 2]), unnest([1, 2, 3])",
        "SELECT [1, 'a']",
        "SELECT [][1]",
        // casts and type parameters
        "SELECT CAST('abc' AS INT)",
        "SELECT CAST('' AS DATE)",
        "SELECT CAST(1 AS DECIMAL(100, 2))",
        "SELECT CAST(1 AS DECIMAL(5, 10))",
        "SELECT CAST(1 AS DECIMAL(0, 0))",
        "SELECT CAST(1 AS DECIMAL(38, 38))",
        "SELECT CAST(1 AS NONEXISTENT)",
        "SELECT CAST(CAST(1 AS DECIMAL(38, 30)) AS DECIMAL(10, 0))",
        "SELECT CAST(CAST(1 AS DECIMAL(10, 0)) AS DECIMAL(38, 30))",
        "SELECT CAST(CAST(1.5 AS DECIMAL(18, 17)) AS DECIMAL(18, 0))",
        "SELECT CAST(CAST(1 AS DECIMAL(38, 0)) AS DECIMAL(38, 38))",
        "SELECT 1.5::DECIMAL(4, -40)",
        "SELECT 1.5::DECIMAL(4, -2)",
        "SELECT CAST(1 AS DECIMAL(4, -2))",
        "SELECT CAST('1' AS VARCHAR(0))",
        "SELECT CAST(1e40 AS FLOAT)",
        "SELECT CAST('nan' AS DOUBLE)::INT",
        "SELECT CAST(300 AS TINYINT)",
        "SELECT CAST(NULL AS INT)::TEXT::DATE",
        "SELECT '2020-13-45'::DATE",
        "SELECT INTERVAL 'abc'",
        // SET / SHOW / RESET
        "SET batch_size TO 0",
        "SET batch_size TO -1",
        "SET batch_size TO 'abc'",
        "SET batch_size TO 99999999999999999999",
        "SET batch_size TO NULL",
        "SET partitions TO 0",
        "SET partitions TO 1.5",
        "SET enable_optimizer TO 3",
        "SET enable_optimizer TO 'maybe'",
        "SET nonexistent TO 1",
        "SHOW nonexistent",
        "RESET nonexistent",
        "SET batch_size TO (SELECT 1)",
        "SET batch_size TO 1 + 1",
        "RESET batch_size",
        "RESET ALL",
        // DESCRIBE / EXPLAIN
        "DESCRIBE nonexistent",
        "DESCRIBE SELECT * FROM nonexistent",
        "DESCRIBE SELECT 1 AS a, 2 AS a",
        "EXPLAIN SELECT 1",
        "EXPLAIN VERBOSE SELECT * FROM (VALUES (1)) v",
        "EXPLAIN SELECT * FROM nonexistent",
        "EXPLAIN EXPLAIN SELECT 1",
        "EXPLAIN SET batch_size TO 5",
        "EXPLAIN CREATE TEMP TABLE e1 (a INT)",
        // DDL / DML
        "CREATE TEMP TABLE t1 (a INT)",
        "CREATE TEMP TABLE t1 (a INT)",
        "CREATE TEMP TABLE t2 (a INT, a INT)",
        "CREATE TEMP TABLE t3 ()",
        "CREATE TEMP TABLE t4 (a NONEXISTENT)",
        "CREATE TABLE t5 (a INT)",
        "CREATE TEMP TABLE t6 AS SELECT 1 AS a, 2 AS a",
        "CREATE TEMP TABLE t7 AS SELECT * FROM nonexistent",
        "INSERT INTO t1 VALUES (1, 2)",
        "INSERT INTO t1 VALUES ('x')",
        "INSERT INTO t1 VALUES (1), (2, 3)",
        "INSERT INTO t1 SELECT 1, 2",
        "INSERT INTO nonexistent VALUES (1)",
        "INSERT INTO t1 VALUES (99999999999)",
        "INSERT INTO t1 VALUES (NULL)",
        "SELECT * FROM t1",
        "DROP TABLE nonexistent",
        "DROP TABLE IF EXISTS nonexistent",
        "DROP TABLE t1",
        "DROP TABLE t1",
        "DROP SCHEMA temp",
        "CREATE SCHEMA temp",
        "CREATE SCHEMA temp.x",
        "CREATE VIEW v1 AS SELECT 1",
        "CREATE TEMP VIEW v2 AS SELECT * FROM nonexistent",
        "ATTACH nonexistent DATABASE AS d",
        "DETACH DATABASE nonexistent",
        // CTEs
        "WITH c AS (SELECT 1) SELECT * FROM c, c",
        "WITH c(a, b) AS (SELECT 1) SELECT * FROM c",
        "WITH c AS (SELECT 1), c AS (SELECT 2) SELECT * FROM c",
        "WITH RECURSIVE r AS (SELECT 1 UNION ALL SELECT * FROM r) SELECT * FROM r LIMIT 3",
        // joins
        "SELECT * FROM generate_series(1, 2) a(x) JOIN generate_series(1, 2) b(x) USING (y)",
        "SELECT * FROM generate_series(1, 2) a(x) JOIN generate_series(1, 2) b(x) ON 1",
        "SELECT * FROM generate_series(1, 2) a(x) JOIN generate_series(1, 2) b(x) ON x = x",
        "SELECT * FROM generate_series(1, 2) a(x) NATURAL JOIN generate_series(1, 2) b(y)",
        "SELECT * FROM generate_series(1, 2) a(x) LEFT JOIN generate_series(1, 2) b(y) ON a.x + b.y = a.x",
        "SELECT * FROM generate_series(1, 2) a(x), LATERAL (SELECT * FROM generate_series(1, a.x)) b",
        // grouping
        "SELECT a, b FROM generate_series(1, 2) g(a) GROUP BY a",
        "SELECT 1 FROM generate_series(1, 2) g(a) GROUP BY ROLLUP ()",
        "SELECT a FROM generate_series(1, 2) g(a) GROUP BY CUBE (a, a, a, a)",
        "SELECT a FROM generate_series(1, 2) g(a) GROUP BY GROUPING SETS (())",
        "SELECT DISTINCT ON (b) a FROM generate_series(1, 2) g(a)",
        "SELECT grouping(a) FROM generate_series(1, 2) g(a)",
    ]
    .iter()
    .map(|s| s.to_string())
    .collect();
    // long (flat) expressions and lists
    f.push(format!("SELECT {}", vec!["1"; 60].join(" + ")));
    f.push(format!("SELECT 1 FROM generate_series(1, 2) g(a) GROUP BY CUBE ({})", (0..64).map(|i| format!("a + {i}")).collect::<Vec<_>>().join(", ")));
    f.push(format!("SELECT 1 FROM generate_series(1, 2) g(a) GROUP BY CUBE ({})", (0..13).map(|i| format!("a + {i}")).collect::<Vec<_>>().join(", ")));
    f.push("SELECT count(*) FROM (SELECT 1 FROM generate_series(1, 2) g(a) GROUP BY CUBE (a, a + 1, a + 2, a + 3, a + 4, a + 5)) s".to_string());
    f.push(format!("SELECT {}", (0..300).map(|i| format!("{i} AS c{i}")).collect::<Vec<_>>().join(", ")));
    f.push(format!("SELECT * FROM (VALUES {}) v", (0..500).map(|i| format!("({i})")).collect::<Vec<_>>().join(", ")));
    f.push(format!("SELECT 1 WHERE 1 IN ({})", (0..500).map(|i| i.to_string()).collect::<Vec<_>>().join(", ")));
    f.push(format!("SELECT {}1{}", "(".repeat(40), ")".repeat(40)));
    f.push(format!("SELECT '{}'", "x".repeat(100_000)));
    f.push(format!("SELECT 1 AS \"{}\"", "n".repeat(10_000)));
    // a failing plan-verification run (the optimized plan builds, the unoptimized one does not)
    f.push("SET verify_optimized_plan TO true".to_string());
    f.push("SELECT u FROM (SELECT unnest([1, 2]) AS u) s WHERE false".to_string());
    f.push("SELECT * FROM (VALUES (1), (2, 3)) v".to_string());
    f.push("SELECT 1 ORDER BY 2".to_string());
    f.push("SET verify_optimized_plan TO false".to_string());
    f
}

/// statements reported as killing the process at the pinned commit; each runs in a child of its own
fn known_crashers() -> Vec<(&'static str, String)> {
    vec![
        ("a sum of 400 terms (expression nesting deeper than ~150 levels)", format!("SELECT {}", vec!["1"; 400].join(" + "))),
        ("20 000 nested parentheses", format!("SELECT {}1{}", "(".repeat(20_000), ")".repeat(20_000))),
        ("self-join of a CTE (join reorder assertion)", "WITH c AS (SELECT x FROM generate_series(1, 10) g(x)) SELECT count(*) FROM c a JOIN c b ON a.x + 1 = b.x".to_string()),
    ]
}

fn child_body(stmts: &[String]) {
    let rt = new_tokio_runtime_for_io().unwrap();
    let engine: Engine = SingleUserEngine::try_new(ThreadedNativeExecutor::try_new_with_num_threads(2).unwrap(), NativeSystemRuntime::new(rt.handle().clone())).unwrap();
    for (i, sql) in stmts.iter().enumerate() {
        let shown: String = sql.chars().take(120).collect();
        println!("VERIF-PROGRESS {i} {shown}");
        let before = settings(&rt, &engine);
        let res = run(&rt, &engine, sql);
        if res.is_err() {
            let after = settings(&rt, &engine);
            if before != after {
                println!("VERIF-FAIL settings changed by a FAILED statement: `{shown}` left {SETTINGS:?} = {after:?}, they were {before:?}");
                std::process::exit(3);
            }
        }
        match run(&rt, &engine, "SELECT 41 + 1") {
            Ok(v) if v == vec!["42".to_string()] => (),
            other => {
                println!("VERIF-FAIL the session does not answer after `{shown}`: SELECT 41 + 1 gives {other:?}");
                std::process::exit(3);
            }
        }
        println!("VERIF-RESULT {i} {}", if res.is_ok() { "ok" } else { "err" });
    }
    println!("VERIF-DONE");
}

static KNOWN_LINES: std::sync::Mutex<Vec<String>> = std::sync::Mutex::new(Vec::new());

/// returns Ok(number of statements that returned a result) or Err(description of what went wrong)
fn run_child(test_name: &str, group: &str) -> std::result::Result<usize, String> {
    let exe = std::env::current_exe().expect("test binary path");
    let mut child = std::process::Command::new(exe)
        .args(["--exact", test_name, "--nocapture", "--test-threads", "1"])
        .env("VERIF_ENGINE_GROUP", group)
        .stdout(std::process::Stdio::piped())
        .stderr(std::process::Stdio::piped())
        .spawn()
        .expect("spawn child");
    let stdout = child.stdout.take().unwrap();
    let stderr = child.stderr.take().unwrap();
    let err_lines = std::sync::Arc::new(std::sync::Mutex::new(Vec::<String>::new()));
    let err2 = err_lines.clone();
    let t = std::thread::spawn(move || {
        for line in std::io::BufReader::new(stderr).lines().map_while(|l| l.ok()) {
            let mut g = err2.lock().unwrap();
            if (line.contains("panicked at") || line.contains("overflow") || line.contains("did not finish")) && g.len() < 6 {
                g.push(line);
            }
        }
    });
    let (mut last, mut oks, mut done, mut fail) = (String::new(), 0usize, false, None);
    let mut known_lines = KNOWN_LINES.lock().unwrap();
    for line in std::io::BufReader::new(stdout).lines().map_while(|l| l.ok()) {
        if let Some(p) = line.find("VERIF-PROGRESS") {
            last = line[p..].to_string();
        } else if line.contains("VERIF-RESULT") && line.ends_with("ok") {
            oks += 1;
        } else if let Some(p) = line.find("VERIF-KNOWN") {
            known_lines.push(line[p + 12..].to_string());
        } else if let Some(p) = line.find("VERIF-FAIL") {
            fail = Some(line[p + 11..].to_string());
        } else if line.contains("VERIF-DONE") {
            done = true;
        }
    }
    let status = child.wait().expect("wait child");
    let _ = t.join();
    if let Some(f) = fail {
        return Err(f);
    }
    if !done || !status.success() {
        let msg = err_lines.lock().unwrap().join(" | ");
        return Err(format!("the process died ({status}) while running statement {last}: {}", msg.chars().take(400).collect::<String>()));
    }
    Ok(oks)
}

#[test]
fn c15_engine__statement_family_result_or_error_session_survives__nat() {
    const NAME: &str = "verif_kani::c15_engine__statement_family_result_or_error_session_survives__nat";
    match std::env::var("VERIF_ENGINE_GROUP").ok() {
        // the child runs its statements on a thread with the 8 MiB stack a main thread has (the CLI runs sessions on it)
        Some(g) => {
            let stmts = if g == "family" {
                family()
            } else {
                let k: usize = g.strip_prefix("known#").and_then(|x| x.parse().ok()).expect("group");
                vec![known_crashers()[k].1.clone()]
            };
            let t = std::thread::Builder::new().stack_size(8 << 20).spawn(move || child_body(&stmts)).unwrap();
            if t.join().is_err() {
                std::process::exit(4);
            }
        }
        None => {
            // the family, in chunks: after a crash the remaining statements still run (in a fresh process)
            match run_child(NAME, "family") {
                Ok(oks) => assert!(oks >= 25, "only {oks} statements of the family returned a result: the family is not exercising execution"),
                Err(e) => panic!("{e}"),
            }
            let mut known = Vec::new();
            for (k, (what, _)) in known_crashers().iter().enumerate() {
                if let Err(e) = run_child(NAME, &format!("known#{k}")) {
                    known.push(format!("{what}: {}", e.chars().take(200).collect::<String>()));
                }
            }
            if !known.is_empty() {
                panic!("KNOWN-SHAPE statements that kill the process (no recursion limit; join reorder on a CTE self-join): {} of 3: {}", known.len(), known.join(" || "));
            }
        }
    }
}


// C14 (bounded stand-in, native; NOT a proof): catalog and table contents after scripted DDL / DML sequences through the
// whole engine equal the sequential effect of the statements (expected results written by hand from the SQL meaning of
// each statement): IF NOT EXISTS on an existing schema / table is a no-op that keeps the contents, a failed statement
// (duplicate name, wrong arity, uncastable or out-of-range value) leaves catalog and table contents untouched, INSERT
// casts to the column types (DECIMAL scale / precision included), INSERT ... SELECT appends exactly the selected rows,
// DROP removes exactly the named entry, a view shows the current contents of its table, SET / RESET / SHOW agree.
enum Expect {
    Ok,
    Err,
    Rows(&'static [&'static str]),
}

fn ddl_script() -> Vec<(&'static str, Expect)> {
    use Expect::*;
    vec![
        // schemas
        ("CREATE SCHEMA s1", Ok),
        ("CREATE TEMP TABLE s1.t (a INT)", Ok),
        ("INSERT INTO s1.t VALUES (1), (2)", Ok),
        ("CREATE SCHEMA IF NOT EXISTS s1", Ok),
        ("SELECT a FROM s1.t ORDER BY 1", Rows(&["1", "2"])),
        ("CREATE SCHEMA s1", Err),
        ("SELECT a FROM s1.t ORDER BY 1", Rows(&["1", "2"])),
        ("CREATE SCHEMA IF NOT EXISTS s3", Ok),
        ("CREATE TEMP TABLE s3.t (a INT)", Ok),
        ("SELECT count(*) FROM s3.t", Rows(&["0"])),
        ("SELECT a FROM s1.t ORDER BY 1", Rows(&["1", "2"])),
        // tables
        ("CREATE TEMP TABLE t (a INT, b TEXT)", Ok),
        ("INSERT INTO t VALUES (1, 'x'), (2, 'y')", Ok),
        ("CREATE TEMP TABLE t (z INT)", Err),
        ("CREATE TEMP TABLE IF NOT EXISTS t (z INT)", Ok),
        ("SELECT a, b FROM t ORDER BY 1", Rows(&["1|x", "2|y"])),
        ("INSERT INTO t VALUES (3)", Err),
        ("INSERT INTO t VALUES (3, 'z', 4)", Err),
        ("INSERT INTO t VALUES ('q', 'z')", Err),
        ("INSERT INTO t VALUES (99999999999, 'z')", Err),
        ("INSERT INTO t SELECT 1", Err),
        ("INSERT INTO nonexistent VALUES (1)", Err),
        ("SELECT a, b FROM t ORDER BY 1", Rows(&["1|x", "2|y"])),
        ("INSERT INTO t VALUES (NULL, NULL)", Ok),
        ("SELECT count(*), count(a), count(b) FROM t", Rows(&["3|2|2"])),
        ("INSERT INTO t SELECT a + 10, b FROM t WHERE a IS NOT NULL", Ok),
        ("SELECT a FROM t WHERE a IS NOT NULL ORDER BY 1", Rows(&["1", "2", "11", "12"])),
        ("DROP TABLE t", Ok),
        ("SELECT * FROM t", Err),
        ("DROP TABLE t", Err),
        ("DROP TABLE IF EXISTS t", Ok),
        ("CREATE TEMP TABLE t (a INT)", Ok),
        ("SELECT count(*) FROM t", Rows(&["0"])),
        // INSERT casts to the column type
        ("CREATE TEMP TABLE d (x DECIMAL(10, 4))", Ok),
        ("INSERT INTO d VALUES (1.25)", Ok),
        ("INSERT INTO d VALUES (12.5)", Ok),
        ("INSERT INTO d VALUES (3)", Ok),
        ("SELECT x::TEXT FROM d ORDER BY x", Rows(&["1.2500", "3.0000", "12.5000"])),
        ("SELECT sum(x)::TEXT FROM d", Rows(&["16.7500"])),
        ("CREATE TEMP TABLE src (d DECIMAL(6, 1))", Ok),
        ("INSERT INTO src VALUES (1.5)", Ok),
        ("INSERT INTO src VALUES (22.5)", Ok),
        ("CREATE TEMP TABLE dst (d DECIMAL(12, 3))", Ok),
        ("INSERT INTO dst SELECT d FROM src", Ok),
        ("SELECT d::TEXT FROM dst ORDER BY d", Rows(&["1.500", "22.500"])),
        ("SELECT count(*) FROM dst JOIN src ON dst.d = src.d", Rows(&["2"])),
        ("CREATE TEMP TABLE nar (d DECIMAL(3, 1))", Ok),
        ("INSERT INTO nar VALUES (123.45)", Err),
        ("SELECT count(*) FROM nar", Rows(&["0"])),
        ("CREATE TEMP TABLE big (a BIGINT)", Ok),
        ("INSERT INTO big VALUES (1)", Ok),
        ("INSERT INTO big SELECT a FROM generate_series(2, 3) g(a)", Ok),
        ("SELECT a FROM big ORDER BY 1", Rows(&["1", "2", "3"])),
        // CREATE TABLE AS, INSERT ... SELECT from the table itself (below one segment)
        ("CREATE TEMP TABLE c AS SELECT * FROM generate_series(1, 1000) g(a)", Ok),
        ("SELECT count(*), sum(a) FROM c", Rows(&["1000|500500"])),
        ("INSERT INTO c SELECT a + 1000 FROM c", Ok),
        ("SELECT count(*), sum(a), min(a), max(a) FROM c", Rows(&["2000|2001000|1|2000"])),
        ("CREATE TEMP TABLE c AS SELECT 1", Err),
        ("CREATE TEMP TABLE IF NOT EXISTS c AS SELECT 1 AS a", Ok),
        ("SELECT count(*) FROM c", Rows(&["2000"])),
        // views
        ("CREATE TEMP TABLE base (a INT)", Ok),
        ("INSERT INTO base VALUES (1), (2)", Ok),
        ("CREATE TEMP VIEW v AS SELECT a + 1 AS b FROM base", Ok),
        ("SELECT b FROM v ORDER BY 1", Rows(&["2", "3"])),
        ("INSERT INTO base VALUES (5)", Ok),
        ("SELECT b FROM v ORDER BY 1", Rows(&["2", "3", "6"])),
        ("CREATE TEMP VIEW v AS SELECT 1", Err),
        ("SELECT b FROM v ORDER BY 1", Rows(&["2", "3", "6"])),
        ("CREATE TEMP VIEW base AS SELECT 1", Err),
        ("SELECT a FROM base ORDER BY 1", Rows(&["1", "2", "5"])),
        // settings
        ("SET batch_size TO 100", Ok),
        ("SHOW batch_size", Rows(&["100"])),
        ("SET batch_size TO 0", Err),
        ("SHOW batch_size", Rows(&["100"])),
        ("SET partitions TO 3", Ok),
        ("SELECT count(*), sum(a) FROM c", Rows(&["2000|2001000"])),
        ("INSERT INTO big SELECT a FROM generate_series(4, 2003) g(a)", Ok),
        ("SELECT count(*), sum(a) FROM big", Rows(&["2003|2007006"])),
        ("SHOW partitions", Rows(&["3"])),
    ]
}

fn ddl_child() {
    let rt = new_tokio_runtime_for_io().unwrap();
    let engine: Engine = SingleUserEngine::try_new(ThreadedNativeExecutor::try_new_with_num_threads(2).unwrap(), NativeSystemRuntime::new(rt.handle().clone())).unwrap();
    for (i, (sql, expect)) in ddl_script().iter().enumerate() {
        println!("VERIF-PROGRESS {i} {sql}");
        let res = run(&rt, &engine, sql);
        let bad = match (expect, &res) {
            (Expect::Ok, Ok(_)) | (Expect::Err, Err(_)) => None,
            (Expect::Rows(want), Ok(got)) if got.iter().map(|s| s.as_str()).eq(want.iter().copied()) => None,
            (Expect::Ok, Err(e)) => Some(format!("failed: {}", e.to_string().lines().next().unwrap_or(""))),
            (Expect::Err, Ok(got)) => Some(format!("succeeded ({got:?}) although it must fail")),
            (Expect::Rows(want), Ok(got)) => Some(format!("returned {got:?}, the sequential effect of the statements so far is {want:?}")),
            (Expect::Rows(_), Err(e)) => Some(format!("failed: {}", e.to_string().lines().next().unwrap_or(""))),
        };
        if let Some(b) = bad {
            println!("VERIF-FAIL statement {i} of the DDL/DML script `{sql}` {b}");
            std::process::exit(3);
        }
        println!("VERIF-RESULT {i} ok");
    }
    println!("VERIF-DONE");
}

#[test]
fn c14_engine__ddl_dml_script_has_its_sequential_effect__nat() {
    const NAME: &str = "verif_kani::c14_engine__ddl_dml_script_has_its_sequential_effect__nat";
    match std::env::var("VERIF_ENGINE_GROUP").ok() {
        Some(_) => {
            let t = std::thread::Builder::new().stack_size(8 << 20).spawn(ddl_child).unwrap();
            if t.join().is_err() {
                std::process::exit(4);
            }
        }
        None => match run_child(NAME, "c14") {
            Ok(oks) => assert!(oks == ddl_script().len(), "only {oks} statements of the script ran"),
            Err(e) => panic!("{e}"),
        },
    }
}


// C07 (bounded stand-in, native; NOT a proof): grouping and aggregate queries through the whole engine (binder, planner,
// optimizer, parallel partial states with 2 worker threads and `partitions` 1 and 4) against results written by hand
// from the SQL definition: plain GROUP BY with NULL keys forming one group, empty input (one row for an ungrouped
// aggregate, none for a grouped one), DISTINCT aggregates, ROLLUP / CUBE incl. the grand total and GROUPING(), HAVING on
// ROLLUP (the filter applies to the groups, not to the input), DISTINCT, UNION, FILTER (the exact result or an error --
// never the unfiltered aggregate).
enum AggExpect {
    Rows(&'static [&'static str]),
    RowsOrErr(&'static [&'static str]),
    /// a query whose result is known to differ from the definition at the pinned commit (see known_findings.json)
    Known(&'static [&'static str]),
}

fn agg_script() -> Vec<(&'static str, AggExpect)> {
    use AggExpect::*;
    vec![
        ("CREATE TEMP TABLE g (k INT, v INT)", Rows(&[])),
        ("INSERT INTO g VALUES (1, 10), (1, 20), (2, 5), (NULL, 7), (NULL, 8), (2, NULL)", Rows(&["6"])),
        ("CREATE TEMP TABLE e (k INT, v INT)", Rows(&[])),
        ("SELECT k, count(*), count(v), sum(v), min(v), max(v) FROM g GROUP BY k ORDER BY k NULLS LAST", Rows(&["1|2|2|30|10|20", "2|2|1|5|5|5", "NULL|2|2|15|7|8"])),
        ("SELECT count(*), count(v), sum(v), min(v), max(v) FROM g", Rows(&["6|5|50|5|20"])),
        ("SELECT count(*), count(v), sum(v), min(v), max(v) FROM e", Rows(&["0|0|NULL|NULL|NULL"])),
        ("SELECT k, count(*) FROM e GROUP BY k", Rows(&[])),
        ("SELECT count(DISTINCT k), count(DISTINCT v), sum(DISTINCT k) FROM g", Rows(&["2|5|3"])),
        ("SELECT k, count(DISTINCT v) FROM g GROUP BY k ORDER BY k NULLS LAST", Rows(&["1|2", "2|1", "NULL|2"])),
        ("SELECT DISTINCT k FROM g ORDER BY k NULLS LAST", Rows(&["1", "2", "NULL"])),
        ("SELECT k FROM (SELECT k FROM g UNION SELECT k FROM g) u ORDER BY k NULLS LAST", Rows(&["1", "2", "NULL"])),
        ("SELECT count(*) FROM (SELECT k FROM g UNION ALL SELECT k FROM g) u", Rows(&["12"])),
        ("SELECT k, sum(v) FROM g WHERE k IS NOT NULL GROUP BY ROLLUP (k) ORDER BY k NULLS LAST", Rows(&["1|30", "2|5", "NULL|35"])),
        ("SELECT k, sum(v) FROM g WHERE k IS NOT NULL GROUP BY ROLLUP (k) HAVING k = 1 ORDER BY k NULLS LAST", Rows(&["1|30"])),
        ("SELECT k, sum(v) FROM g WHERE k IS NOT NULL GROUP BY ROLLUP (k) HAVING k IS NULL", Rows(&["NULL|35"])),
        ("SELECT k, grouping(k), sum(v) FROM g WHERE k IS NOT NULL GROUP BY ROLLUP (k) ORDER BY 2, 1", Rows(&["1|0|30", "2|0|5", "NULL|1|35"])),
        ("SELECT k, v IS NULL AS n, count(*) FROM g WHERE k IS NOT NULL GROUP BY CUBE (k, v IS NULL) ORDER BY 1 NULLS LAST, 2 NULLS LAST", Rows(&["1|false|2", "1|NULL|2", "2|false|1", "2|true|1", "2|NULL|2", "NULL|false|3", "NULL|true|1", "NULL|NULL|4"])),
        ("SELECT count(*) FILTER (WHERE v > 7) FROM g", RowsOrErr(&["3"])),
        ("SELECT k, sum(v) FILTER (WHERE v >= 10) FROM g GROUP BY k ORDER BY k NULLS LAST", RowsOrErr(&["1|30", "2|NULL", "NULL|NULL"])),
        ("SELECT k, sum(v) FROM e GROUP BY ROLLUP (k)", Known(&["NULL|NULL"])),
        ("SELECT k, k + 1, count(*) FROM g WHERE k IS NOT NULL GROUP BY CUBE (k, k + 1) ORDER BY 1 NULLS LAST, 2 NULLS LAST", Known(&["1|2|2", "1|NULL|2", "2|3|2", "2|NULL|2", "NULL|2|2", "NULL|3|2", "NULL|NULL|4"])),
        ("SELECT count(*) FROM (SELECT x FROM (VALUES (CAST('0.0' AS DOUBLE)), (CAST('-0.0' AS DOUBLE))) t(x) GROUP BY x) s", Known(&["1"])),
        ("SELECT bit_and(v), bit_or(v), bool_and(v > 4), bool_or(v > 10) FROM g", Rows(&["0|31|true|true"])),
        ("SELECT k, bit_and(v), bit_or(v) FROM g GROUP BY k ORDER BY k NULLS LAST", Rows(&["1|0|30", "2|5|5", "NULL|0|15"])),
    ]
}

fn agg_child() {
    let rt = new_tokio_runtime_for_io().unwrap();
    let engine: Engine = SingleUserEngine::try_new(ThreadedNativeExecutor::try_new_with_num_threads(2).unwrap(), NativeSystemRuntime::new(rt.handle().clone())).unwrap();
    for partitions in [1usize, 4] {
        for (i, (sql, expect)) in agg_script().iter().enumerate() {
            if partitions == 4 && i < 3 {
                continue; // the tables exist
            }
            println!("VERIF-PROGRESS {i} {sql}");
            if i == 3 {
                run(&rt, &engine, &format!("SET partitions TO {partitions}")).unwrap();
            }
            let res = run(&rt, &engine, sql);
            let (want, err_ok, known) = match expect {
                AggExpect::Rows(w) => (w, false, false),
                AggExpect::RowsOrErr(w) => (w, true, false),
                AggExpect::Known(w) => (w, false, true),
            };
            if known {
                if !matches!(&res, Ok(got) if got.iter().map(|s| s.as_str()).eq(want.iter().copied())) {
                    println!("VERIF-KNOWN `{sql}` (partitions = {partitions}) gives {:?}, the definition gives {want:?}", res.as_ref().map_err(|e| e.to_string().lines().next().unwrap_or("").to_string()));
                }
                println!("VERIF-RESULT {i} ok");
                continue;
            }
            let bad = match &res {
                Ok(got) if got.iter().map(|s| s.as_str()).eq(want.iter().copied()) => None,
                Ok(got) => Some(format!("returned {got:?}, the definition gives {want:?}")),
                Err(_) if err_ok => None,
                Err(e) => Some(format!("failed: {}", e.to_string().lines().next().unwrap_or(""))),
            };
            if let Some(b) = bad {
                println!("VERIF-FAIL aggregate query `{sql}` (partitions = {partitions}) {b}");
                std::process::exit(3);
            }
            println!("VERIF-RESULT {i} ok");
        }
    }
    println!("VERIF-DONE");
}

#[test]
fn c07_engine__aggregate_queries_match_their_definition__nat() {
    const NAME: &str = "verif_kani::c07_engine__aggregate_queries_match_their_definition__nat";
    match std::env::var("VERIF_ENGINE_GROUP").ok() {
        Some(_) => {
            let t = std::thread::Builder::new().stack_size(8 << 20).spawn(agg_child).unwrap();
            if t.join().is_err() {
                std::process::exit(4);
            }
        }
        None => {
            match run_child(NAME, "c07") {
                Ok(oks) => assert!(oks == 2 * agg_script().len() - 3, "only {oks} queries of the script ran"),
                Err(e) => panic!("{e}"),
            }
            let known = KNOWN_LINES.lock().unwrap().clone();
            if !known.is_empty() {
                panic!("KNOWN-SHAPE grouping-set queries that differ from the definition: {} : {}", known.len(), known.join(" || "));
            }
        }
    }
}


// C03 / C05 / C06 / C08 / C12 (bounded stand-in, native; NOT a proof): about 45 queries with results written by hand from
// the SQL definition (three-valued logic, operator precedence, comparison and arithmetic semantics incl. truncating integer
// division and exact decimal arithmetic, ORDER BY with NULLS FIRST / LAST and mixed directions, LIMIT / OFFSET, inner /
// outer / semi / anti joins, grouped and DISTINCT aggregates, set operations) run through the whole engine under EVERY
// combination of partitions {1, 4}, batch_size {default, 64} and enable_hash_joins {true, false}: each must return its
// expected rows (as a multiset unless the query has an ORDER BY) in all 8 settings.
fn query_script() -> Vec<(&'static str, bool, &'static [&'static str])> {
    // (query, ordered, expected rows)
    vec![
        ("SELECT 'a' < 'b', 'abc' < 'abd', 'a' = 'a ', DATE '2020-01-02' > DATE '2020-01-01', 1.50 = 1.5, 1.5 < 1.50001", true, &["true|true|false|true|true|true"]),
        ("SELECT 2 BETWEEN 1 AND 3, 2 BETWEEN 3 AND 1, NULL BETWEEN 1 AND 3, 1 IN (1, NULL), 2 IN (1, NULL), 2 NOT IN (1, NULL)", true, &["true|false|NULL|true|NULL|NULL"]),
        ("SELECT CASE WHEN NULL THEN 1 ELSE 2 END, CASE WHEN false THEN 1 END, CASE 2 WHEN 1 THEN 'a' WHEN 2 THEN 'b' END", true, &["2|NULL|b"]),
        ("SELECT abs(-5), -7 % 3, 7 % -3, -7 / 2, 7 / 2, 7 / -2", true, &["5|-1|1|-3|3|-3"]),
        ("SELECT NOT true AND false, NOT (true AND false), 1 + 2 * 3, (1 + 2) * 3, -2 * 3, 2 - 3 - 4, 2 * 3 % 4", true, &["false|true|7|9|-6|-5|2"]),
        ("SELECT true OR NULL, false AND NULL, NULL OR false, NOT NULL, NULL = NULL, NULL IS NULL, 1 IS NOT NULL", true, &["true|false|NULL|NULL|NULL|true|true"]),
        ("SELECT 1 = 1.0, 2 > 1.5, 3 < 2.5, 10 = '10'::INT, 1.5::DOUBLE > 1, -1 < 0::BIGINT", true, &["true|true|false|true|true|true"]),
        ("SELECT 1.5 + 2.25 = 3.75, 1.5 * 2.25 = 3.375, 10.0 - 0.01 = 9.99, 1.10 + 2 = 3.1, 0.1 + 0.2 = 0.3", true, &["true|true|true|true|true"]),
        ("SELECT (1.5 + 2.25)::TEXT, (1.5 * 2.5)::TEXT, (10.0 - 0.01)::TEXT", true, &["3.75|3.75|9.99"]),
        ("SELECT 9223372036854775806 + 1, -9223372036854775807 - 1, 3037000499 * 3037000499, 127::TINYINT::BIGINT", true, &["9223372036854775807|-9223372036854775808|9223372030926249001|127"]),
        ("SELECT sum(x) = 4.0, avg(x) = 2.0, min(x) = 1.5, max(x) = 2.5, count(x) FROM (VALUES (1.5), (2.5)) t(x)", true, &["true|true|true|true|2"]),
        ("SELECT a FROM (VALUES (3), (1), (NULL), (2)) t(a) ORDER BY a ASC NULLS FIRST", true, &["NULL", "1", "2", "3"]),
        ("SELECT a FROM (VALUES (3), (1), (NULL), (2)) t(a) ORDER BY a DESC NULLS LAST", true, &["3", "2", "1", "NULL"]),
        ("SELECT a FROM (VALUES (3), (1), (NULL), (2)) t(a) ORDER BY a DESC NULLS FIRST", true, &["NULL", "3", "2", "1"]),
        ("SELECT a, b FROM (VALUES (1, 'x'), (1, 'a'), (0, 'z'), (2, NULL)) t(a, b) ORDER BY a DESC, b ASC NULLS FIRST", true, &["2|NULL", "1|a", "1|x", "0|z"]),
        ("SELECT s FROM (VALUES ('prefix-prefix-prefix-b'), ('prefix-prefix-prefix-a'), ('prefix-prefix-prefix'), ('prefix')) t(s) ORDER BY s DESC", true, &["prefix-prefix-prefix-b", "prefix-prefix-prefix-a", "prefix-prefix-prefix", "prefix"]),
        ("SELECT x FROM (VALUES (1.5::DOUBLE), (-0.5::DOUBLE), (100::DOUBLE), (-100.25::DOUBLE)) t(x) ORDER BY x", true, &["-100.25", "-0.5", "1.5", "100"]),
        ("SELECT a FROM generate_series(1, 100) g(a) ORDER BY a DESC LIMIT 3 OFFSET 2", true, &["98", "97", "96"]),
        ("SELECT a FROM generate_series(1, 100) g(a) ORDER BY a LIMIT 0", true, &[]),
        ("SELECT a FROM generate_series(1, 100) g(a) ORDER BY a LIMIT 5 OFFSET 98", true, &["99", "100"]),
        ("SELECT a FROM generate_series(1, 100) g(a) ORDER BY a LIMIT 10 OFFSET 200", true, &[]),
        ("SELECT count(*) FROM (SELECT a FROM generate_series(1, 5000) g(a) LIMIT 1234 OFFSET 100) s", true, &["1234"]),
        ("SELECT a FROM generate_series(1, 5000) g(a) ORDER BY a % 7, a DESC LIMIT 4", true, &["4998", "4991", "4984", "4977"]),
        ("SELECT a % 3, a FROM generate_series(1, 7) g(a) ORDER BY 1 DESC, 2", true, &["2|2", "2|5", "1|1", "1|4", "1|7", "0|3", "0|6"]),
        ("SELECT count(*), sum(a.x * b.y) FROM generate_series(1, 300) a(x) JOIN generate_series(1, 300) b(y) ON a.x = b.y", true, &["300|9045050"]),
        ("SELECT count(*) FROM generate_series(1, 50) a(x) LEFT JOIN generate_series(1, 25) b(y) ON a.x = b.y WHERE b.y IS NULL", true, &["25"]),
        ("SELECT count(*), count(b.y) FROM generate_series(1, 50) a(x) LEFT JOIN generate_series(1, 25) b(y) ON a.x = b.y", true, &["50|25"]),
        ("SELECT count(*), count(a.x), count(b.y) FROM generate_series(1, 10) a(x) RIGHT JOIN generate_series(6, 20) b(y) ON a.x = b.y", true, &["15|5|15"]),
        ("SELECT count(*) FROM generate_series(1, 40) a(x), generate_series(1, 40) b(y) WHERE a.x < b.y", true, &["780"]),
        ("SELECT count(*) FROM generate_series(1, 40) a(x) JOIN generate_series(1, 40) b(y) ON a.x = b.y AND a.x + b.y > 40", true, &["20"]),
        ("SELECT count(*) FROM generate_series(1, 30) a(x) JOIN generate_series(1, 30) b(y) ON a.x % 5 = b.y % 5 AND a.x < b.y", true, &["75"]),
        ("SELECT count(*) FROM generate_series(1, 100) a(x) WHERE x IN (SELECT y * 2 FROM generate_series(1, 30) b(y))", true, &["30"]),
        ("SELECT count(*) FROM generate_series(1, 100) a(x) WHERE x NOT IN (SELECT y * 2 FROM generate_series(1, 30) b(y))", true, &["70"]),
        ("SELECT count(*) FROM generate_series(1, 100) a(x) WHERE EXISTS (SELECT 1 FROM generate_series(1, 30) b(y) WHERE b.y * 3 = a.x)", true, &["30"]),
        ("SELECT count(*) FROM generate_series(1, 100) a(x) WHERE NOT EXISTS (SELECT 1 FROM generate_series(1, 30) b(y) WHERE b.y * 3 = a.x)", true, &["70"]),
        ("SELECT x % 10 AS k, count(*), sum(x) FROM generate_series(1, 1000) g(x) GROUP BY x % 10 ORDER BY k", true, &["0|100|50500", "1|100|49600", "2|100|49700", "3|100|49800", "4|100|49900", "5|100|50000", "6|100|50100", "7|100|50200", "8|100|50300", "9|100|50400"]),
        ("SELECT count(DISTINCT x % 13), count(*), min(x), max(x), sum(x) FROM generate_series(1, 1000) g(x)", true, &["13|1000|1|1000|500500"]),
        ("SELECT DISTINCT x % 4 FROM generate_series(1, 1000) g(x)", false, &["0", "1", "2", "3"]),
        ("SELECT x FROM generate_series(1, 3) g(x) UNION ALL SELECT x FROM generate_series(2, 4) g(x)", false, &["1", "2", "2", "3", "3", "4"]),
        ("SELECT x FROM generate_series(1, 3) g(x) UNION SELECT x FROM generate_series(2, 4) g(x)", false, &["1", "2", "3", "4"]),
        ("SELECT count(*) FROM (SELECT x FROM generate_series(1, 3000) g(x) UNION ALL SELECT x FROM generate_series(1, 2000) g(x)) u WHERE x % 2 = 0", true, &["2500"]),
        ("SELECT k, count(*) FROM (SELECT x % 3 AS k FROM generate_series(1, 10) g(x) WHERE x > 4) s GROUP BY k HAVING count(*) > 1 ORDER BY k", true, &["0|2", "1|2", "2|2"]),
        ("SELECT sum(c) FROM (SELECT count(*) AS c FROM generate_series(1, 2000) g(x) GROUP BY x % 97) s", true, &["2000"]),
        ("SELECT count(*), sum(c), min(k), max(k) FROM (SELECT x % 1300 AS k, count(*) AS c FROM generate_series(1, 5200) g(x) GROUP BY x % 1300) s", true, &["1300|5200|0|1299"]),
        ("SELECT count(*), sum(k) FROM (SELECT DISTINCT x % 777 AS k FROM generate_series(1, 3000) g(x)) s", true, &["777|301476"]),
        ("SELECT count(DISTINCT x % 1111), count(*) FROM generate_series(1, 4000) g(x)", true, &["1111|4000"]),
        ("SELECT count(*), min(x), max(x), sum(x) FROM generate_series(129, 1, -1) g(x)", true, &["129|1|129|8385"]),
        ("SELECT count(*), min(x), max(x) FROM generate_series(8193, 1, -1) g(x)", true, &["8193|1|8193"]),
        ("SELECT count(*), min(x), max(x) FROM generate_series(1, 257, 2) g(x)", true, &["129|1|257"]),
        ("SELECT x FROM generate_series(5, 5, -1) g(x)", true, &["5"]),
        ("SELECT CAST(0.3 AS DOUBLE)::TEXT, CAST(0.7 AS DOUBLE)::TEXT, CAST(4.35 AS DOUBLE)::TEXT, CAST(12345678.9 AS DOUBLE)::TEXT, (0.3 / 1.0)::TEXT", true, &["0.3|0.7|4.35|12345678.9|0.3"]),
        ("SELECT (1.000::DECIMAL(18,3) - 0.5::DECIMAL(10,1))::TEXT, (1.000::DECIMAL(18,3) + 0.5::DECIMAL(10,1))::TEXT, (2.5::DECIMAL(38,1) - 1::INT)::TEXT, (1.25 - 0.5)::TEXT", true, &["0.500|1.500|1.5|0.75"]),
        ("SELECT -2 ^ 2, 3 * -2 ^ 2, 2 ^ 3 ^ 2, - 2 * 3, 10 - -3", true, &["4|12|64|-6|13"]),
        ("SELECT round(-2.5::DOUBLE), round(-0.5::DOUBLE), round(2.5::DOUBLE), round(0.49999999999999994::DOUBLE), round(-1.4::DOUBLE), round(4503599627370497::DOUBLE)::BIGINT", true, &["-3|-1|3|0|-1|4503599627370497"]),
        ("SELECT a FROM (VALUES (3), (-5), (NULL), (0), (-1)) t(a) ORDER BY a DESC NULLS LAST", true, &["3", "0", "-1", "-5", "NULL"]),
        ("SELECT a FROM (VALUES (3), (-5), (NULL), (0), (-1)) t(a) ORDER BY a DESC NULLS FIRST", true, &["NULL", "3", "0", "-1", "-5"]),
        ("SELECT a, b FROM (VALUES (1.5::DOUBLE, 2), (NULL, 1), (-2.5::DOUBLE, NULL), (1.5::DOUBLE, NULL)) t(a, b) ORDER BY a DESC NULLS LAST, b DESC NULLS FIRST", true, &["1.5|NULL", "1.5|2", "-2.5|NULL", "NULL|1"]),
    ]
}

fn query_child() {
    let rt = new_tokio_runtime_for_io().unwrap();
    let engine: Engine = SingleUserEngine::try_new(ThreadedNativeExecutor::try_new_with_num_threads(2).unwrap(), NativeSystemRuntime::new(rt.handle().clone())).unwrap();
    let default_batch = run(&rt, &engine, "SHOW batch_size").unwrap().join("");
    let mut n = 0usize;
    for partitions in [1usize, 4] {
        for batch in [default_batch.as_str(), "64"] {
            for hash_joins in [true, false] {
                run(&rt, &engine, &format!("SET partitions TO {partitions}")).unwrap();
                run(&rt, &engine, &format!("SET batch_size TO {batch}")).unwrap();
                run(&rt, &engine, &format!("SET enable_hash_joins TO {hash_joins}")).unwrap();
                for (i, (sql, ordered, want)) in query_script().iter().enumerate() {
                    println!("VERIF-PROGRESS {i} {sql}");
                    let setting = format!("partitions = {partitions}, batch_size = {batch}, enable_hash_joins = {hash_joins}");
                    match run(&rt, &engine, sql) {
                        Ok(mut got) => {
                            let mut w: Vec<String> = want.iter().map(|s| s.to_string()).collect();
                            if !*ordered {
                                got.sort();
                                w.sort();
                            }
                            if got != w {
                                println!("VERIF-FAIL query `{sql}` ({setting}) returned {got:?}, by its definition the result is {w:?}");
                                std::process::exit(3);
                            }
                        }
                        Err(e) => {
                            println!("VERIF-FAIL query `{sql}` ({setting}) failed: {}", e.to_string().lines().next().unwrap_or(""));
                            std::process::exit(3);
                        }
                    }
                    println!("VERIF-RESULT {n} ok");
                    n += 1;
                }
            }
        }
    }
    println!("VERIF-DONE");
}

#[test]
fn c03c05c06c08c12_engine__query_results_match_definition_in_every_setting__nat() {
    const NAME: &str = "verif_kani::c03c05c06c08c12_engine__query_results_match_definition_in_every_setting__nat";
    match std::env::var("VERIF_ENGINE_GROUP").ok() {
        Some(_) => {
            let t = std::thread::Builder::new().stack_size(8 << 20).spawn(query_child).unwrap();
            if t.join().is_err() {
                std::process::exit(4);
            }
        }
        None => match run_child(NAME, "queries") {
            Ok(oks) => assert!(oks == 8 * query_script().len(), "only {oks} query runs completed"),
            Err(e) => panic!("{e}"),
        },
    }
}
