# Route-3 kernel extraction table: hook -> list of closure specs (see extract/gen_kernels.py)
KERNELS = {
    'arith_add': [
        dict(name='add', impl=r'impl<S> ScalarFunction for Add<S>'),
        dict(name='dadd', impl=r'impl<D> ScalarFunction for DecimalAdd<D>'),
    ],
}
