// C10 / C19 (bounded stand-in, native; NOT a proof): INT96 timestamps (nanoseconds of the day + Julian day number, as
// written by Impala / Hive / Spark) are converted to TIMESTAMP(ns) = (julian - 2440588) * 86 400 e9 + nanos.  For Julian
// days around the epoch (1969-12-30 .. 1970-01-02), 1900-01-01, 2000-02-29, the ends of the i64 nanosecond range
// (1677-09-21 / 2262-04-11) and the extremes 0 / u32::MAX, with 0, 1 and 86 399 999 999 999 nanoseconds of the day, the
// reader returns exactly that value when it is representable and reports an error otherwise; it never panics.
use glaredb_core::arrays::array::Array;
use glaredb_core::arrays::array::physical_type::{Addressable, ScalarStorage};
use glaredb_core::arrays::datatype::DataType;
use glaredb_core::buffer::buffer_manager::DefaultBufferManager;

use super::*;

//@fn column/value_reader/int96.rs impl ValueReader for Int96TsReader :: read_next_unchecked

#[test]
fn c10c19_int96_timestamp__exact_value_or_error_never_panic__nat() {
    let julians: [u32; 14] = [2_440_586, 2_440_587, 2_440_588, 2_440_589, 2_440_590, 2_415_021, 2_451_604, 2_333_836, 2_333_837, 2_547_339, 2_547_340, 0, 1, u32::MAX];
    let mut cases = 0usize;
    let (mut values, mut errors) = (0usize, 0usize);
    for julian in julians {
        for nanos in [0i64, 1, 86_399_999_999_999] {
            let mut bytes = nanos.to_le_bytes().to_vec();
            bytes.extend(julian.to_le_bytes());
            let want: Option<i64> = i64::try_from((julian as i128 - 2_440_588) * 86_400_000_000_000 + nanos as i128).ok();
            let b = bytes.clone();
            let res = std::panic::catch_unwind(move || {
                let mut arr = Array::new(&DefaultBufferManager, DataType::int64(), 1).unwrap();
                let mut err = ReaderErrorState::default();
                {
                    let mut out = PhysicalI64::get_addressable_mut(arr.data_mut()).unwrap();
                    let mut cursor = ReadCursor::from_slice(&b);
                    unsafe { Int96TsReader.read_next_unchecked(&mut cursor, 0, &mut out, &mut err) };
                }
                let v = *PhysicalI64::get_addressable(arr.data()).unwrap().get(0).unwrap();
                (v, err.into_result().is_ok())
            });
            match (res, want) {
                (Err(_), _) => panic!("reading an INT96 timestamp panics: Julian day {julian}, {nanos} ns of the day (TIMESTAMP(ns) {want:?})"),
                (Ok((v, true)), Some(w)) => {
                    assert!(v == w, "INT96 timestamp Julian day {julian} + {nanos} ns is read as {v}, it is {w} ns since the epoch");
                    values += 1;
                }
                (Ok((_, false)), None) => errors += 1,
                (Ok((v, true)), None) => panic!("INT96 timestamp Julian day {julian} + {nanos} ns is outside TIMESTAMP(ns) but was read as {v} without an error"),
                (Ok((_, false)), Some(w)) => panic!("INT96 timestamp Julian day {julian} + {nanos} ns = {w} ns since the epoch was rejected"),
            }
            cases += 1;
        }
    }
    assert!(cases == 42 && values >= 24 && errors >= 6, "{cases} {values} {errors}");
}
