// C11 U1: statistics-based row-group pruning only avoids work.  Contract of `PrimitiveRowGroupPruner::should_prune`
// (soundness, for ALL statistics the metadata decoder can hand over):
//   if some value x of the column's LOGICAL type lies in the row group -- i.e. between the group's minimum and maximum in
//   the order the writer used for the statistics: the logical order for `min_value` / `max_value`, the SIGNED order of
//   the physical type for the deprecated `min` / `max` fields -- then a filter `col = x` must NOT prune the group;
//   inexact or absent statistics never prune.
// Loop-free over the full domain of (min, max, x, flags): a complete proof for each instantiation the reader uses.
use glaredb_core::arrays::scalar::unwrap::{UnwrapI8, UnwrapI16, UnwrapI32, UnwrapI64, UnwrapU8, UnwrapU16, UnwrapU32, UnwrapU64};

use super::*;

//@fn column/row_group_pruner.rs impl RowGroupPruner<T> for PrimitiveRowGroupPruner<T, U> :: should_prune

fn forget_res(r: Result<bool>) -> Option<bool> {
    let out = match &r {
        Ok(b) => Some(*b),
        Err(_) => None,
    };
    std::mem::forget(r);
    out
}

macro_rules! pruner_sound {
    ($name:ident, $plain:ty, $phys:ty, $unwrap:ty, $logical:ty, $variant:ident) => {
        #[kani::proof]
        #[kani::unwind(3)]
        fn $name() {
            let lo: $logical = kani::any();
            let hi: $logical = kani::any();
            let x: $logical = kani::any();
            let deprecated: bool = kani::any();
            // what the file stores: the logical value reinterpreted / widened to the physical type
            let (plo, phi, px) = (lo as $phys, hi as $phys, x as $phys);
            if deprecated {
                // old writers ordered statistics by the signed physical value
                kani::assume(plo <= px && px <= phi);
            } else {
                kani::assume(lo <= x && x <= hi);
            }
            let min_present: bool = kani::any();
            let max_present: bool = kani::any();
            let stats = ValueStatistics::<$phys> {
                min: if min_present { Some(plo) } else { None },
                max: if max_present { Some(phi) } else { None },
                distinct_count: None,
                null_count: kani::any(),
                is_max_value_exact: kani::any(),
                is_min_value_exact: kani::any(),
                is_min_max_deprecated: deprecated,
                is_min_max_backwards_compatible: deprecated,
            };
            let pruner = PrimitiveRowGroupPruner::<$plain, $unwrap> {
                const_eq_filters: vec![ScalarValue::$variant(x)],
                _t: PhantomCovariant::new(),
                _u: PhantomCovariant::new(),
            };
            kani::cover!(deprecated && min_present && max_present);
            kani::cover!(!deprecated && min_present && max_present && stats.is_max_value_exact && stats.is_min_value_exact);
            let r = forget_res(pruner.should_prune(&stats));
            assert!(r == Some(false), concat!("row group holding the value is pruned (", stringify!($logical), " column)"));
            std::mem::forget(pruner);
        }
    };
}

pruner_sound!(c11_pruner_u32__never_prunes_a_group_holding_the_value, PlainTypeI32, i32, UnwrapU32, u32, UInt32);
pruner_sound!(c11_pruner_u64__never_prunes_a_group_holding_the_value, PlainTypeI64, i64, UnwrapU64, u64, UInt64);
pruner_sound!(c11_pruner_i32__never_prunes_a_group_holding_the_value, PlainTypeI32, i32, UnwrapI32, i32, Int32);
pruner_sound!(c11_pruner_i64__never_prunes_a_group_holding_the_value, PlainTypeI64, i64, UnwrapI64, i64, Int64);
pruner_sound!(c11_pruner_i8__never_prunes_a_group_holding_the_value, PlainTypeI32, i32, UnwrapI8, i8, Int8);
pruner_sound!(c11_pruner_i16__never_prunes_a_group_holding_the_value, PlainTypeI32, i32, UnwrapI16, i16, Int16);
pruner_sound!(c11_pruner_u8__never_prunes_a_group_holding_the_value, PlainTypeI32, i32, UnwrapU8, u8, UInt8);
pruner_sound!(c11_pruner_u16__never_prunes_a_group_holding_the_value, PlainTypeI32, i32, UnwrapU16, u16, UInt16);

// completeness side (strength guard): with exact statistics in the logical order, a constant outside [min, max] IS pruned
#[kani::proof]
#[kani::unwind(3)]
fn c11_pruner_i32__prunes_outside_range() {
    let lo: i32 = kani::any();
    let hi: i32 = kani::any();
    let x: i32 = kani::any();
    kani::assume(lo <= hi && (x < lo || x > hi));
    let stats = ValueStatistics::<i32> {
        min: Some(lo),
        max: Some(hi),
        distinct_count: None,
        null_count: 0,
        is_max_value_exact: true,
        is_min_value_exact: true,
        is_min_max_deprecated: false,
        is_min_max_backwards_compatible: false,
    };
    let pruner = PrimitiveRowGroupPruner::<PlainTypeI32, UnwrapI32> {
        const_eq_filters: vec![ScalarValue::Int32(x)],
        _t: PhantomCovariant::new(),
        _u: PhantomCovariant::new(),
    };
    kani::cover!(x < lo);
    kani::cover!(x > hi);
    let r = forget_res(pruner.should_prune(&stats));
    assert!(r == Some(true), "a row group that cannot hold the constant is not pruned");
    std::mem::forget(pruner);
}

include!("/verif/build/kani-gen/pq_pruner.playback.rs");
