// C07 / C12 (bounded stand-in, native; NOT a proof): the aggregate functions AS REGISTERED in the built-in function sets
// (the state types are proved one by one in agg_sum / agg_avg; this unit pins which state the table hands to which
// input type).  For every input type of SUM and for AVG(BIGINT), every sequence of 1..=3 values from the boundary set
// {MIN, MIN+1, -1, 0, 1, MAX-1, MAX} of the type, and every way the sequence is cut into two partial states (update,
// update, combine, finalize through the real AggregateLayout entry points):
//   SUM  = the mathematical sum if it fits the declared result type, otherwise the statement fails with an error;
//   AVG  = the mathematical sum converted to DOUBLE, divided by the row count (rounding only in those two steps);
// the result never depends on where the sequence was cut.
use super::*;
use crate::arrays::array::physical_type::{Addressable, PhysicalF64, PhysicalI64, ScalarStorage};
use crate::arrays::datatype::DataType;
use crate::arrays::row::aggregate_layout::AggregateUpdateSelector;
use crate::expr::physical::PhysicalAggregateExpression;
use crate::expr::{self, bind_aggregate_function};
use crate::functions::aggregate::builtin::avg::FUNCTION_SET_AVG;
use crate::functions::aggregate::builtin::sum::FUNCTION_SET_SUM;
use crate::functions::function_set::AggregateFunctionSet;
use crate::util::iter::TryFromExactSizeIterator;

//@fn functions/aggregate/builtin/sum.rs FUNCTION_SET_SUM (table wiring: Int8/16/32/64 -> state)
//@fn functions/aggregate/builtin/avg.rs FUNCTION_SET_AVG (table wiring: Int64 -> state)
//@fn arrays/row/aggregate_layout.rs AggregateLayout::{update_states, combine_states, finalize_states}

/// Run `set` over `left ++ right` as two partial states combined; Ok((result array, valid)) or Err.
fn run_split(set: &'static AggregateFunctionSet, input: DataType, left: Array, nl: usize, right: Array, nr: usize) -> Result<Array> {
    let agg = bind_aggregate_function(set, vec![expr::column((0, 1), input.clone())])?;
    let ret = agg.state.return_type.clone();
    let aggs = [PhysicalAggregateExpression::new(agg, [(1, input)])];
    let layout = AggregateLayout::try_new([DataType::int32()], aggs)?;
    let mut collection = AggregateCollection::new(layout, 16);
    let mut state = collection.init_append_state();
    collection.append_groups(&mut state, &[Array::try_from_iter([0_i32, 1])?], 0..2)?;
    let ptrs = state.row_pointers().to_vec();
    unsafe {
        if nl > 0 {
            let mut p = vec![ptrs[0]; nl];
            collection.layout.update_states(&mut p, [AggregateUpdateSelector { aggregate_idx: 0, inputs: &[left] }], nl)?;
        }
        if nr > 0 {
            let mut p = vec![ptrs[1]; nr];
            collection.layout.update_states(&mut p, [AggregateUpdateSelector { aggregate_idx: 0, inputs: &[right] }], nr)?;
        }
        let mut src = vec![ptrs[1]];
        let mut dest = vec![ptrs[0]];
        collection.layout.combine_states([0], &mut src, &mut dest)?;
        let mut fin = vec![ptrs[0]];
        let mut groups = Array::new(&DefaultBufferManager, DataType::int32(), 1)?;
        let mut results = Array::new(&DefaultBufferManager, ret, 1)?;
        collection.finalize_groups(&mut fin, &mut [&mut groups], &mut [&mut results])?;
        Ok(results)
    }
}

fn sequences<T: Copy>(dom: &[T]) -> Vec<Vec<T>> {
    let mut out = Vec::new();
    for &a in dom {
        out.push(vec![a]);
        for &b in dom {
            out.push(vec![a, b]);
            for &c in dom {
                out.push(vec![a, b, c]);
            }
        }
    }
    out
}

macro_rules! check_int_type {
    ($t:ty, $dt:ident, $cases:ident, $avg:expr) => {{
        let dom: [$t; 7] = [<$t>::MIN, <$t>::MIN + 1, -1, 0, 1, <$t>::MAX - 1, <$t>::MAX];
        for seq in sequences(&dom) {
            let exact: i128 = seq.iter().map(|&v| v as i128).sum();
            let mut seen_sum: Option<Option<i64>> = None;
            for cut in 0..=seq.len() {
                let (l, r) = seq.split_at(cut);
                let mk = |s: &[$t]| Array::try_from_iter(s.to_vec()).unwrap();
                // SUM
                let got = run_split(&FUNCTION_SET_SUM, DataType::$dt(), mk(l), l.len(), mk(r), r.len());
                let got: Option<i64> = match got {
                    Ok(arr) => {
                        assert!(arr.validity.is_valid(0), "SUM({}) of a non-empty input is NULL: {seq:?} cut at {cut}", stringify!($t));
                        Some(*PhysicalI64::get_addressable(&arr.data).unwrap().get(0).unwrap())
                    }
                    Err(_) => None,
                };
                match got {
                    Some(v) => assert!(v as i128 == exact, "SUM({}) of {seq:?} cut at {cut} is {v}, mathematical sum is {exact}", stringify!($t)),
                    None => assert!(
                        exact > i64::MAX as i128 || exact < i64::MIN as i128 || stringify!($t) == "i64",
                        "SUM({}) of {seq:?} cut at {cut} failed although the sum {exact} fits", stringify!($t)
                    ),
                }
                if exact <= i64::MAX as i128 && exact >= i64::MIN as i128 && stringify!($t) != "i64" {
                    assert!(got.is_some());
                }
                // cut independence of the OUTCOME for in-range totals (an intermediate overflow of the i64
                // accumulator may fail one cut and not another; a wrong VALUE is never allowed)
                if let (Some(Some(p)), Some(v)) = (seen_sum, got) {
                    assert!(p == v, "SUM({}) of {seq:?} depends on the cut", stringify!($t));
                }
                if got.is_some() {
                    seen_sum = Some(got);
                }
                // AVG
                if $avg {
                    let arr = run_split(&FUNCTION_SET_AVG, DataType::$dt(), mk(l), l.len(), mk(r), r.len());
                    match arr {
                        Ok(arr) => {
                            assert!(arr.validity.is_valid(0));
                            let v = *PhysicalF64::get_addressable(&arr.data).unwrap().get(0).unwrap();
                            let want = (exact as f64) / (seq.len() as f64);
                            assert!(v == want, "AVG({}) of {seq:?} cut at {cut} is {v}, expected {want}", stringify!($t));
                        }
                        Err(_) => panic!("AVG({}) of {seq:?} cut at {cut} failed", stringify!($t)),
                    }
                }
                $cases += 1;
            }
        }
    }};
}

#[test]
fn c07c12_builtin_sum_avg__boundary_values_exact_or_error__nat() {
    let mut cases = 0usize;
    check_int_type!(i8, int8, cases, false);
    check_int_type!(i16, int16, cases, false);
    check_int_type!(i32, int32, cases, false);
    check_int_type!(i64, int64, cases, true);
    assert!(cases > 4000);
}

// C07 (bounded stand-in, native): every floating-point / statistical aggregate AS REGISTERED gives the same result
// however its input is cut into two partial states that are then combined ("the result must not depend on how rows are
// split across partitions ... up to rounding for floating-point accumulators": relative tolerance 1e-9), and the
// variance family equals its textbook definition.  Unary over DOUBLE: sum, avg, min, max, var_pop, var_samp, stddev_pop,
// stddev_samp; binary (y, x) over DOUBLE: covar_pop, covar_samp, corr, regr_count, regr_avgx, regr_avgy, regr_r2,
// regr_slope.  Three data sets of 6 rows, every cut 0..=6 (cut 0 / 6 = one state empty).
fn run_split_n(set: &'static AggregateFunctionSet, cols: &[Vec<f64>], cut: usize) -> Result<Option<f64>> {
    use crate::arrays::scalar::BorrowedScalarValue;
    let n = cols[0].len();
    let inputs: Vec<crate::expr::Expression> = (0..cols.len()).map(|i| expr::column((0, i + 1), DataType::float64())).collect();
    let agg = bind_aggregate_function(set, inputs)?;
    let ret = agg.state.return_type.clone();
    let aggs = [PhysicalAggregateExpression::new(agg, (0..cols.len()).map(|i| (i + 1, DataType::float64())))];
    let layout = AggregateLayout::try_new([DataType::int32()], aggs)?;
    let mut collection = AggregateCollection::new(layout, 16);
    let mut state = collection.init_append_state();
    collection.append_groups(&mut state, &[Array::try_from_iter([0_i32, 1])?], 0..2)?;
    let ptrs = state.row_pointers().to_vec();
    unsafe {
        for (lo, hi, row) in [(0usize, cut, 0usize), (cut, n, 1)] {
            if hi > lo {
                let arrays: Vec<Array> = cols.iter().map(|c| Array::try_from_iter(c[lo..hi].to_vec()).unwrap()).collect();
                let mut p = vec![ptrs[row]; hi - lo];
                collection.layout.update_states(&mut p, [AggregateUpdateSelector { aggregate_idx: 0, inputs: &arrays }], hi - lo)?;
            }
        }
        let mut src = vec![ptrs[1]];
        let mut dest = vec![ptrs[0]];
        collection.layout.combine_states([0], &mut src, &mut dest)?;
        let mut fin = vec![ptrs[0]];
        let mut groups = Array::new(&DefaultBufferManager, DataType::int32(), 1)?;
        let mut results = Array::new(&DefaultBufferManager, ret, 1)?;
        collection.finalize_groups(&mut fin, &mut [&mut groups], &mut [&mut results])?;
        Ok(match results.get_value(0)? {
            BorrowedScalarValue::Null => None,
            BorrowedScalarValue::Float64(v) => Some(v),
            BorrowedScalarValue::Int64(v) => Some(v as f64),
            other => panic!("unexpected result {other:?}"),
        })
    }
}

fn close(a: Option<f64>, b: Option<f64>) -> bool {
    match (a, b) {
        (None, None) => true,
        (Some(x), Some(y)) => (x.is_nan() && y.is_nan()) || (x - y).abs() <= 1e-9 * x.abs().max(y.abs()).max(1.0),
        _ => false,
    }
}

#[test]
fn c07_builtin_float_aggregates__independent_of_the_cut__nat() {
    use crate::functions::aggregate::builtin::corr::FUNCTION_SET_CORR;
    use crate::functions::aggregate::builtin::covar::{FUNCTION_SET_COVAR_POP, FUNCTION_SET_COVAR_SAMP};
    use crate::functions::aggregate::builtin::minmax::{FUNCTION_SET_MAX, FUNCTION_SET_MIN};
    use crate::functions::aggregate::builtin::regr_avg::{FUNCTION_SET_REGR_AVG_X, FUNCTION_SET_REGR_AVG_Y};
    use crate::functions::aggregate::builtin::regr_count::FUNCTION_SET_REGR_COUNT;
    use crate::functions::aggregate::builtin::regr_r2::FUNCTION_SET_REGR_R2;
    use crate::functions::aggregate::builtin::regr_slope::FUNCTION_SET_REGR_SLOPE;
    use crate::functions::aggregate::builtin::stddev::{FUNCTION_SET_STDDEV_POP, FUNCTION_SET_STDDEV_SAMP, FUNCTION_SET_VAR_POP, FUNCTION_SET_VAR_SAMP};
    let xs: [Vec<f64>; 3] = [vec![1.0, 2.0, 3.0, 7.0, 8.0, 9.0], vec![-5.5, 0.25, 1e6, 3.0, 3.0, -1e6], vec![2.0, 2.0, 2.0, 2.0, 2.0, 4.0]];
    let ys: [Vec<f64>; 3] = [vec![2.0, 4.5, 6.0, 13.0, 17.0, 19.5], vec![1.0, -1.0, 0.5, 8.0, -3.0, 2.0], vec![1.0, 2.0, 3.0, 4.0, 5.0, 6.0]];
    let unary: [(&str, &'static AggregateFunctionSet); 8] = [
        ("sum", &FUNCTION_SET_SUM), ("avg", &FUNCTION_SET_AVG), ("min", &FUNCTION_SET_MIN), ("max", &FUNCTION_SET_MAX),
        ("var_pop", &FUNCTION_SET_VAR_POP), ("var_samp", &FUNCTION_SET_VAR_SAMP), ("stddev_pop", &FUNCTION_SET_STDDEV_POP), ("stddev_samp", &FUNCTION_SET_STDDEV_SAMP),
    ];
    let binary: [(&str, &'static AggregateFunctionSet); 8] = [
        ("covar_pop", &FUNCTION_SET_COVAR_POP), ("covar_samp", &FUNCTION_SET_COVAR_SAMP), ("corr", &FUNCTION_SET_CORR), ("regr_count", &FUNCTION_SET_REGR_COUNT),
        ("regr_avgx", &FUNCTION_SET_REGR_AVG_X), ("regr_avgy", &FUNCTION_SET_REGR_AVG_Y), ("regr_r2", &FUNCTION_SET_REGR_R2), ("regr_slope", &FUNCTION_SET_REGR_SLOPE),
    ];
    let mut cases = 0usize;
    for d in 0..3 {
        let x = &xs[d];
        let n = x.len() as f64;
        let mean = x.iter().sum::<f64>() / n;
        let m2: f64 = x.iter().map(|v| (v - mean) * (v - mean)).sum();
        for (name, set) in unary {
            let whole = run_split_n(set, &[x.clone()], 0).unwrap();
            let def = match name {
                "var_pop" => Some(m2 / n),
                "var_samp" => Some(m2 / (n - 1.0)),
                "stddev_pop" => Some((m2 / n).sqrt()),
                "stddev_samp" => Some((m2 / (n - 1.0)).sqrt()),
                "sum" => Some(x.iter().sum::<f64>()),
                "avg" => Some(mean),
                "min" => x.iter().copied().reduce(f64::min),
                _ => x.iter().copied().reduce(f64::max),
            };
            assert!(close(whole, def), "{name}({x:?}) = {whole:?}, definition gives {def:?}");
            for cut in 0..=x.len() {
                let got = run_split_n(set, &[x.clone()], cut).unwrap();
                assert!(close(got, whole), "{name}({x:?}) depends on how the rows are split: {got:?} when cut after {cut} rows, {whole:?} in one state");
                cases += 1;
            }
        }
        for (name, set) in binary {
            let cols = [ys[d].clone(), x.clone()];
            let whole = run_split_n(set, &cols, 0).unwrap();
            for cut in 0..=x.len() {
                let got = run_split_n(set, &cols, cut).unwrap();
                assert!(close(got, whole), "{name}(y = {:?}, x = {x:?}) depends on how the rows are split: {got:?} when cut after {cut} rows, {whole:?} in one state", ys[d]);
                cases += 1;
            }
        }
    }
    assert!(cases == 3 * 16 * 7);
}

//@fn functions/aggregate/builtin/{stddev,covar,corr,regr_*}.rs states as registered (update / merge / finalize through AggregateLayout)

// C07 (bounded stand-in, native; NOT a proof): integer and boolean aggregates AS REGISTERED -- bit_and, bit_or, min, max,
// sum, count over BIGINT and INT, bool_and, bool_or over BOOLEAN, first over BIGINT -- equal their definition over the
// non-NULL values of the group (NULL for no such value; count = their number) and do not depend on how the rows are cut
// into two partial states that are then combined, INCLUDING an empty or all-NULL state on either side of the merge
// (a partition that saw no row of the group).  Every sequence of <= 4 values over {NULL, 6, 3, 12, -1, 0} (booleans:
// {NULL, true, false}), every cut.
#[derive(Debug, Clone, Copy, PartialEq)]
enum AggOut {
    Null,
    I(i64),
    B(bool),
}

fn run_split_opt<T>(set: &'static AggregateFunctionSet, dt: DataType, col: &[Option<T>], cut: usize) -> Result<AggOut>
where
    T: Copy,
    Array: crate::util::iter::TryFromExactSizeIterator<Option<T>, Error = glaredb_error::DbError>,
{
    use crate::arrays::scalar::BorrowedScalarValue;
    let n = col.len();
    let agg = bind_aggregate_function(set, vec![expr::column((0, 1), dt.clone())])?;
    let ret = agg.state.return_type.clone();
    let aggs = [PhysicalAggregateExpression::new(agg, [(1, dt.clone())])];
    let layout = AggregateLayout::try_new([DataType::int32()], aggs)?;
    let mut collection = AggregateCollection::new(layout, 16);
    let mut state = collection.init_append_state();
    collection.append_groups(&mut state, &[<Array as crate::util::iter::TryFromExactSizeIterator<i32>>::try_from_iter([0_i32, 1])?], 0..2)?;
    let ptrs = state.row_pointers().to_vec();
    unsafe {
        for (lo, hi, row) in [(0usize, cut, 0usize), (cut, n, 1)] {
            if hi > lo {
                let arrays = [<Array as crate::util::iter::TryFromExactSizeIterator<Option<T>>>::try_from_iter(col[lo..hi].to_vec())?];
                let mut p = vec![ptrs[row]; hi - lo];
                collection.layout.update_states(&mut p, [AggregateUpdateSelector { aggregate_idx: 0, inputs: &arrays }], hi - lo)?;
            }
        }
        let mut src = vec![ptrs[1]];
        let mut dest = vec![ptrs[0]];
        collection.layout.combine_states([0], &mut src, &mut dest)?;
        let mut fin = vec![ptrs[0]];
        let mut groups = Array::new(&DefaultBufferManager, DataType::int32(), 1)?;
        let mut results = Array::new(&DefaultBufferManager, ret, 1)?;
        collection.finalize_groups(&mut fin, &mut [&mut groups], &mut [&mut results])?;
        Ok(match results.get_value(0)? {
            BorrowedScalarValue::Null => AggOut::Null,
            BorrowedScalarValue::Int64(v) => AggOut::I(v),
            BorrowedScalarValue::Int32(v) => AggOut::I(v as i64),
            BorrowedScalarValue::Boolean(v) => AggOut::B(v),
            other => panic!("unexpected result {other:?}"),
        })
    }
}

fn opt_sequences<T: Copy>(dom: &[Option<T>]) -> Vec<Vec<Option<T>>> {
    let mut out: Vec<Vec<Option<T>>> = vec![vec![]];
    let mut layer: Vec<Vec<Option<T>>> = vec![vec![]];
    for _ in 0..4 {
        let mut next = Vec::new();
        for s in &layer {
            for &d in dom {
                let mut t = s.clone();
                t.push(d);
                next.push(t);
            }
        }
        out.extend(next.iter().cloned());
        layer = next;
    }
    out
}

#[test]
fn c07_builtin_integer_boolean_aggregates__definition_and_cut_independence__nat() {
    use crate::functions::aggregate::builtin::bit_and::FUNCTION_SET_BIT_AND;
    use crate::functions::aggregate::builtin::bit_or::FUNCTION_SET_BIT_OR;
    use crate::functions::aggregate::builtin::bool_and::FUNCTION_SET_BOOL_AND;
    use crate::functions::aggregate::builtin::bool_or::FUNCTION_SET_BOOL_OR;
    use crate::functions::aggregate::builtin::count::FUNCTION_SET_COUNT;
    use crate::functions::aggregate::builtin::first::FUNCTION_SET_FIRST;
    use crate::functions::aggregate::builtin::minmax::{FUNCTION_SET_MAX, FUNCTION_SET_MIN};
    let mut cases = 0usize;
    let dom64: [Option<i64>; 6] = [None, Some(6), Some(3), Some(12), Some(-1), Some(0)];
    let ints: [(&str, &'static AggregateFunctionSet); 7] = [
        ("bit_and", &FUNCTION_SET_BIT_AND), ("bit_or", &FUNCTION_SET_BIT_OR), ("min", &FUNCTION_SET_MIN), ("max", &FUNCTION_SET_MAX),
        ("sum", &FUNCTION_SET_SUM), ("count", &FUNCTION_SET_COUNT), ("first", &FUNCTION_SET_FIRST),
    ];
    for seq in opt_sequences(&dom64) {
        let vals: Vec<i64> = seq.iter().flatten().copied().collect();
        for (name, set) in ints {
            let def = match name {
                "count" => AggOut::I(vals.len() as i64),
                _ if vals.is_empty() => AggOut::Null,
                "bit_and" => AggOut::I(vals.iter().fold(-1i64, |a, b| a & b)),
                "bit_or" => AggOut::I(vals.iter().fold(0i64, |a, b| a | b)),
                "min" => AggOut::I(*vals.iter().min().unwrap()),
                "max" => AggOut::I(*vals.iter().max().unwrap()),
                "sum" => AggOut::I(vals.iter().sum()),
                _ => AggOut::I(vals[0]),
            };
            for cut in 0..=seq.len() {
                // BIGINT input
                let got = run_split_opt::<i64>(set, DataType::int64(), &seq, cut).unwrap_or_else(|e| panic!("{name}(BIGINT {seq:?}) cut after {cut} rows failed: {}", e.to_string().lines().next().unwrap_or("")));
                assert!(got == def, "{name}(BIGINT) over {seq:?} with the rows cut after {cut} into two partial states gives {got:?}; over the group's rows it is {def:?}");
                // INT input
                let seq32: Vec<Option<i32>> = seq.iter().map(|v| v.map(|x| x as i32)).collect();
                let got = run_split_opt::<i32>(set, DataType::int32(), &seq32, cut).unwrap_or_else(|e| panic!("{name}(INT {seq32:?}) cut after {cut} rows failed: {}", e.to_string().lines().next().unwrap_or("")));
                assert!(got == def, "{name}(INT) over {seq32:?} with the rows cut after {cut} into two partial states gives {got:?}; over the group's rows it is {def:?}");
                cases += 2;
            }
        }
    }
    let domb: [Option<bool>; 3] = [None, Some(true), Some(false)];
    for seq in opt_sequences(&domb) {
        let vals: Vec<bool> = seq.iter().flatten().copied().collect();
        for (name, set) in [("bool_and", &FUNCTION_SET_BOOL_AND), ("bool_or", &FUNCTION_SET_BOOL_OR)] {
            let def = if vals.is_empty() { AggOut::Null } else if name == "bool_and" { AggOut::B(vals.iter().all(|b| *b)) } else { AggOut::B(vals.iter().any(|b| *b)) };
            for cut in 0..=seq.len() {
                let got = run_split_opt::<bool>(set, DataType::boolean(), &seq, cut).unwrap_or_else(|e| panic!("{name}({seq:?}) cut after {cut} rows failed: {}", e.to_string().lines().next().unwrap_or("")));
                assert!(got == def, "{name} over {seq:?} with the rows cut after {cut} into two partial states gives {got:?}; over the group's rows it is {def:?}");
                cases += 1;
            }
        }
    }
    assert!(cases > 20_000);
}

include!("/verif/build/kani-gen/agg_collection.playback.rs");
