// C05 U4 (bounded stand-in, native; NOT a proof): CASE is evaluated correctly under every selection.
// Contract of `PhysicalCaseExpr::eval(input, state, sel, output)` (the evaluator's convention, cf. PhysicalColumnExpr):
// output position k holds the CASE value of input row sel[k] -- the value of the first branch whose WHEN is TRUE on that
// row (NULL counts as not true), else the ELSE value -- whatever the selection: identity, a subset, reordered, with
// repeated rows; so in particular a CASE nested inside a THEN / ELSE branch (evaluated under the outer branch's
// selection) and a CASE above a filter are correct.
// Executes the real evaluator on: one 6-row batch (values incl. NULL), three CASE shapes (two WHEN branches with
// column / literal / arithmetic THEN values; a CASE nested in a THEN branch; a CASE nested in the ELSE branch), and EVERY
// selection of length 0..=3 over the 6 rows (259 selections incl. repeats and reorderings) plus the identity.
use super::*;
use crate::arrays::scalar::BorrowedScalarValue;
use crate::buffer::buffer_manager::DefaultBufferManager;
use crate::expr::physical::column_expr::PhysicalColumnExpr;
use crate::expr::physical::literal_expr::PhysicalLiteralExpr;
use crate::logical::binder::table_list::TableList;
use crate::testutil::exprs::plan_scalar;
use crate::util::iter::TryFromExactSizeIterator;
use crate::expr;

//@fn expr/physical/case_expr.rs PhysicalCaseExpr::eval

const ROWS: [Option<i32>; 6] = [Some(1), Some(2), Some(3), None, Some(4), Some(5)];

/// a > k
fn gt(tl: &TableList, t0: crate::logical::binder::table_list::TableRef, k: i32) -> PhysicalScalarExpression {
    plan_scalar(tl, expr::gt(expr::column((t0, 0), DataType::int32()), expr::lit(k)).unwrap())
}

fn lit(v: i32) -> PhysicalScalarExpression {
    PhysicalLiteralExpr::new(v).into()
}

fn case(cases: Vec<PhysicalWhenThen>, else_expr: PhysicalScalarExpression) -> PhysicalCaseExpr {
    PhysicalCaseExpr { cases, else_expr: Box::new(else_expr), datatype: DataType::int32() }
}

#[test]
fn c05_case_expr__value_per_selected_row__nat() {
    let mut tl = TableList::empty();
    let t0 = tl.push_table(None, [DataType::int32()], ["a"]).unwrap();
    let col: PhysicalScalarExpression = PhysicalColumnExpr::from((0, DataType::int32())).into();
    let plus100 = plan_scalar(&tl, expr::add(expr::column((t0, 0), DataType::int32()), expr::lit(100)).unwrap());

    // shape 0: CASE WHEN a > 3 THEN a + 100 WHEN a > 1 THEN a ELSE -1 END
    let shape0 = case(vec![PhysicalWhenThen::new(gt(&tl, t0, 3), plus100.clone()), PhysicalWhenThen::new(gt(&tl, t0, 1), col.clone())], lit(-1));
    let spec0 = |a: Option<i32>| match a {
        Some(a) if a > 3 => Some(a + 100),
        Some(a) if a > 1 => Some(a),
        _ => Some(-1),
    };
    // shape 1: CASE WHEN a > 2 THEN (CASE WHEN a > 3 THEN 10 ELSE 20 END) ELSE 0 END
    let inner1 = case(vec![PhysicalWhenThen::new(gt(&tl, t0, 3), lit(10))], lit(20));
    let shape1 = case(vec![PhysicalWhenThen::new(gt(&tl, t0, 2), PhysicalScalarExpression::Case(inner1))], lit(0));
    let spec1 = |a: Option<i32>| match a {
        Some(a) if a > 3 => Some(10),
        Some(a) if a > 2 => Some(20),
        _ => Some(0),
    };
    // shape 2: CASE WHEN a > 4 THEN 7 ELSE (CASE WHEN a > 1 THEN a ELSE a + 100 END) END
    let inner2 = case(vec![PhysicalWhenThen::new(gt(&tl, t0, 1), col.clone())], plus100.clone());
    let shape2 = case(vec![PhysicalWhenThen::new(gt(&tl, t0, 4), lit(7))], PhysicalScalarExpression::Case(inner2));
    let spec2 = |a: Option<i32>| match a {
        Some(a) if a > 4 => Some(7),
        Some(a) if a > 1 => Some(a),
        Some(a) => Some(a + 100),
        None => None,
    };
    let shapes: [(&str, &PhysicalCaseExpr, &dyn Fn(Option<i32>) -> Option<i32>); 3] = [
        ("CASE WHEN a > 3 THEN a + 100 WHEN a > 1 THEN a ELSE -1 END", &shape0, &spec0),
        ("CASE WHEN a > 2 THEN (CASE WHEN a > 3 THEN 10 ELSE 20 END) ELSE 0 END", &shape1, &spec1),
        ("CASE WHEN a > 4 THEN 7 ELSE (CASE WHEN a > 1 THEN a ELSE a + 100 END) END", &shape2, &spec2),
    ];

    // selections: identity + every sequence of length 0..=3 over the 6 rows
    let mut sels: Vec<Vec<usize>> = vec![(0..6).collect()];
    sels.push(vec![]);
    for i in 0..6 {
        sels.push(vec![i]);
        for j in 0..6 {
            sels.push(vec![i, j]);
            for k in 0..6 {
                sels.push(vec![i, j, k]);
            }
        }
    }
    let mut cases = 0usize;
    for (text, shape, spec) in shapes {
        for sel in &sels {
            let mut input = Batch::from_arrays([Array::try_from_iter(ROWS.to_vec()).unwrap()]).unwrap();
            let mut state = shape.create_state(6).unwrap();
            let mut out = Array::new(&DefaultBufferManager, DataType::int32(), 6).unwrap();
            // poison the output so that a position that is never written is noticed
            for i in 0..6 {
                out.set_value(i, &BorrowedScalarValue::Int32(-777)).unwrap();
            }
            let selection = if sel.len() == 6 { Selection::linear(0, 6) } else { Selection::slice(sel) };
            shape.eval(&mut input, &mut state, selection, &mut out).unwrap();
            for (k, &row) in sel.iter().enumerate() {
                let got = match out.get_value(k).unwrap() {
                    BorrowedScalarValue::Int32(v) => Some(v),
                    BorrowedScalarValue::Null => None,
                    other => panic!("unexpected value {other:?}"),
                };
                let want = spec(ROWS[row]);
                assert!(
                    got == want,
                    "`{text}` evaluated under the selection {sel:?}: output position {k} (input row {row}, a = {:?}) is {got:?}, expected {want:?}",
                    ROWS[row]
                );
            }
            cases += 1;
        }
    }
    assert!(cases == 3 * (2 + 6 + 36 + 216));
}
include!("/verif/build/kani-gen/case_expr.playback.rs");
