// C20 U3 (bounded stand-in, native): substring(s, from [, count]) with 1-based character positions.
// For from >= 1 (and count >= 0) the result is characters [from, from+count); for every other argument the call must
// still terminate promptly, must not panic, and must return a (possibly empty) suffix / infix of s.
use super::*;

//@fn functions/scalar/builtin/string/substring.rs substring_from
//@fn functions/scalar/builtin/string/substring.rs substring_from_count

fn strings3() -> Vec<String> {
    let alphabet = ['a', 'é', '漢', '😀'];
    let mut all = vec![String::new()];
    let mut frontier = vec![String::new()];
    for _ in 0..3 {
        let mut next = Vec::new();
        for w in &frontier {
            for c in alphabet {
                let mut x = w.clone();
                x.push(c);
                next.push(x);
            }
        }
        all.extend(next.iter().cloned());
        frontier = next;
    }
    all
}

/// run `f` with a deadline: a call that spins (e.g. 2^64 loop iterations) is reported instead of hanging the check
fn with_deadline<T: Send + 'static>(what: String, f: impl FnOnce() -> T + Send + 'static) -> T {
    let (tx, rx) = std::sync::mpsc::channel();
    std::thread::spawn(move || {
        let r = std::panic::catch_unwind(std::panic::AssertUnwindSafe(f));
        let _ = tx.send(r);
    });
    match rx.recv_timeout(std::time::Duration::from_secs(120)) {
        Ok(Ok(v)) => v,
        Ok(Err(_)) => panic!("{what} panicked"),
        Err(_) => panic!("{what} did not return within 120 s (unbounded loop)"),
    }
}

#[test]
fn c20_substring__char_semantics_and_termination__nat() {
    let mut froms = vec![i64::MIN, i64::MIN + 1, i64::MAX];
    froms.extend(-2..=5);
    let mut counts = vec![i64::MIN, -1, i64::MAX];
    counts.extend(0..=4);
    for s in strings3() {
        let chars: Vec<char> = s.chars().collect();
        for &from in &froms {
            let s2 = s.clone();
            let got = with_deadline(format!("substring({s:?}, {from})"), move || substring_from(&s2, from).to_string());
            if from >= 1 {
                let start = ((from - 1) as usize).min(chars.len());
                let expected: String = chars[start..].iter().collect();
                assert!(got == expected, "substring({s:?}, {from}) = {got:?}, expected {expected:?}");
            } else {
                assert!(s.ends_with(&got), "substring({s:?}, {from}) = {got:?} is not a suffix of the input");
            }
            for &count in &counts {
                let s2 = s.clone();
                let got = with_deadline(format!("substring({s:?}, {from}, {count})"), move || substring_from_count(&s2, from, count).to_string());
                if from >= 1 && count >= 0 {
                    let start = ((from - 1) as usize).min(chars.len());
                    let end = (start as u128 + count as u128).min(chars.len() as u128) as usize;
                    let expected: String = chars[start..end].iter().collect();
                    assert!(got == expected, "substring({s:?}, {from}, {count}) = {got:?}, expected {expected:?}");
                } else {
                    assert!(s.contains(&got), "substring({s:?}, {from}, {count}) = {got:?} is not part of the input");
                }
            }
        }
    }
}

include!("/verif/build/kani-gen/string_substring.playback.rs");
