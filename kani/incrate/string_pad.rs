// C20 U3 (bounded stand-in, native): lpad / rpad count CHARACTERS: the result has exactly max(count, 0) characters when
// the pad string is not empty (the input truncated on the right when it is longer), is s when the pad string is empty,
// and consists of pad repetitions + s (lpad) / s + pad repetitions (rpad).
use super::*;

//@fn functions/scalar/builtin/string/pad.rs lpad
//@fn functions/scalar/builtin/string/pad.rs rpad

fn strings2() -> Vec<String> {
    let alphabet = ['a', 'é', '😀'];
    let mut all = vec![String::new()];
    let mut frontier = vec![String::new()];
    for _ in 0..2 {
        let mut next = Vec::new();
        for w in &frontier {
            for c in alphabet {
                let mut x = w.clone();
                x.push(c);
                next.push(x);
            }
        }
        all.extend(next.iter().cloned());
        frontier = next;
    }
    all
}

fn spec_pad(s: &str, count: i64, pad: &str, left: bool) -> String {
    if pad.is_empty() {
        return s.to_string();
    }
    let n = count.max(0) as usize;
    let sc: Vec<char> = s.chars().collect();
    if sc.len() >= n {
        return sc[..n].iter().collect();
    }
    let pc: Vec<char> = pad.chars().collect();
    let fill: String = (0..n - sc.len()).map(|i| pc[i % pc.len()]).collect();
    if left { format!("{fill}{s}") } else { format!("{s}{fill}") }
}

#[test]
fn c20_pad__char_semantics__nat() {
    let mut counts = vec![i64::MIN, -1];
    counts.extend(0..=5);
    for s in strings2() {
        for pad in strings2() {
            for &n in &counts {
                let mut buf = String::new();
                let r = std::panic::catch_unwind(std::panic::AssertUnwindSafe(|| lpad(&s, n, &pad, &mut buf)));
                assert!(r.is_ok(), "lpad({s:?}, {n}, {pad:?}) panicked");
                let expected = spec_pad(&s, n, &pad, true);
                assert!(buf == expected, "lpad({s:?}, {n}, {pad:?}) = {buf:?}, expected {expected:?}");
                let mut buf = String::new();
                let r = std::panic::catch_unwind(std::panic::AssertUnwindSafe(|| rpad(&s, n, &pad, &mut buf)));
                assert!(r.is_ok(), "rpad({s:?}, {n}, {pad:?}) panicked");
                let expected = spec_pad(&s, n, &pad, false);
                assert!(buf == expected, "rpad({s:?}, {n}, {pad:?}) = {buf:?}, expected {expected:?}");
            }
        }
    }
}

include!("/verif/build/kani-gen/string_pad.playback.rs");
