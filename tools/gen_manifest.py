#!/usr/bin/env python3
"""Regenerate /verif/MANIFEST.json from units/props.json (claimed properties) and the hook commits in /repo."""
import json, os, subprocess
V = os.path.join(os.path.dirname(os.path.abspath(__file__)), '..')
props = json.load(open(os.path.join(V, 'units', 'props.json')))
ids = [json.loads(l)['id'] for l in open(os.path.join(V, 'properties.jsonl'))]
hook_commits = subprocess.run(['git', '-C', '/repo', 'log', '--format=%H %s'], stdout=subprocess.PIPE, text=True).stdout.split('\n')
hook_commits = [l.split(' ', 1)[0] for l in hook_commits if ' verif hook:' in l]
checks = []
na = []
for pid in ids:
    p = props.get(pid, {})
    if p.get('claimed'):
        checks.append({
            'property_id': pid,
            'quick_cmd': './check %s --tier quick' % pid,
            'thorough_cmd': './check %s --tier thorough' % pid,
            'evidence_file': '/verif/evidence/%s.json' % pid,
            'replay_cmd_template': './check --replay {path}',
            'engine': p.get('engine', 'kani'),
            'level_claimed': {'category': p.get('level', 'proof'), 'text': p['level_text'], 'design_ref': p.get('design_ref', 'DESIGN.md section 3, ' + pid)},
            'level_note': p['level_note'],
            'technique': p.get('technique', 'contract-based deductive verification (Kani function-level harness contracts / Verus requires-ensures on extracted code)'),
        })
    else:
        na.append({'property_id': pid, 'reason': p.get('na_reason', 'check not built yet')})
m = {
    'version': 1,
    'setup_cmd': './check --setup',
    'hooks': {
        'guard': 'cfg(kani)',
        'enable': 'cargo kani sets cfg(kani) itself; every hook is `#[cfg(kani)] mod verif_kani { include!("/verif/build/kani-gen/<hook>.harness.rs"); }` appended to a source file (the included file is the per-run copy of /verif/kani/incrate/<hook>.rs that every check writes before building), plus one check-cfg lint stanza in /repo/Cargo.toml. No other build (cargo build/test/nextest) sees them.',
        'baseline_off_cmd': 'cd /repo && cargo nextest run --workspace --no-fail-fast --tool-config-file pb:/w/lib/nextest.toml --profile pb --test-threads 8 --offline && python3 /verif/tools/baseline_compare.py',
        'source_commits': hook_commits,
        'add_only': True,
    },
    'engines': [
        {'name': 'kani', 'path': '/verif/kani/incrate', 'serves_properties': [c['property_id'] for c in checks if 'kani' in c['engine']],
         'kind_free_text': 'Kani 0.68 (CBMC 6.11, CaDiCaL or Z3) proof harnesses compiled into the real crates under cfg(kani); closure kernels extracted verbatim on every run'},
        {'name': 'verus', 'path': '/verif/verus', 'serves_properties': [c['property_id'] for c in checks if 'verus' in c['engine']],
         'kind_free_text': 'Verus 0.2026.09.13 on functions extracted mechanically from /repo on every run (closed rewrite list per unit)'},
    ],
    'checks': checks,
    'notes': 'Driver: ./check <id> --tier quick|thorough; exit 2 = UNDECIDED (infrastructure), never an alarm. Known findings: /verif/known_findings.json.',
    'not_applicable': na,
}
json.dump(m, open(os.path.join(V, 'MANIFEST.json'), 'w'), indent=1)
print('claimed', [c['property_id'] for c in checks])
