// C20 U1 / C02 U2 (bounded: patterns <= 3 bytes over {a, %, _, \}, strings <= 3 bytes over {a, b, \}):
// the constant-LIKE classifiers of the optimizer agree with LIKE's definition ('%' any sequence, '_' any one character,
// '\' makes the next character literal, a trailing '\' is literal -- the semantics of the general LIKE path).
use super::*;

//@fn optimizer/expr_rewrite/like.rs can_str_compare
//@fn optimizer/expr_rewrite/like.rs is_prefix_pattern
//@fn optimizer/expr_rewrite/like.rs is_suffix_pattern
//@fn optimizer/expr_rewrite/like.rs is_contains_pattern

/// Specification: does `s` match LIKE pattern `p` (escape character backslash)?
fn like(s: &[u8], p: &[u8]) -> bool {
    if p.is_empty() {
        return s.is_empty();
    }
    match p[0] {
        b'%' => like(s, &p[1..]) || (!s.is_empty() && like(&s[1..], p)),
        b'_' => !s.is_empty() && like(&s[1..], &p[1..]),
        b'\\' => {
            if p.len() > 1 {
                !s.is_empty() && s[0] == p[1] && like(&s[1..], &p[2..])
            } else {
                s.len() == 1 && s[0] == b'\\'
            }
        }
        c => !s.is_empty() && s[0] == c && like(&s[1..], &p[1..]),
    }
}

fn pick_pat(k: u8) -> u8 {
    match k & 3 {
        0 => b'a',
        1 => b'%',
        2 => b'_',
        _ => b'\\',
    }
}
fn pick_str(k: u8) -> u8 {
    match k % 3 {
        0 => b'a',
        1 => b'b',
        _ => b'\\',
    }
}

fn trim_pct(p: &[u8]) -> &[u8] {
    // what `pattern.trim_matches('%')` returns
    let mut a = 0;
    let mut b = p.len();
    while a < b && p[a] == b'%' {
        a += 1;
    }
    while b > a && p[b - 1] == b'%' {
        b -= 1;
    }
    &p[a..b]
}
fn starts_with(s: &[u8], x: &[u8]) -> bool {
    s.len() >= x.len() && &s[..x.len()] == x
}
fn ends_with(s: &[u8], x: &[u8]) -> bool {
    s.len() >= x.len() && &s[s.len() - x.len()..] == x
}
fn contains(s: &[u8], x: &[u8]) -> bool {
    let mut i = 0;
    while i + x.len() <= s.len() {
        if &s[i..i + x.len()] == x {
            return true;
        }
        i += 1;
    }
    false
}

#[kani::proof]
#[kani::unwind(6)]
fn c02c20_like_rewrite__classifiers_equivalent__bnd__thr() {
    let pk: [u8; 3] = kani::any();
    let sk: [u8; 3] = kani::any();
    let pbuf = [pick_pat(pk[0]), pick_pat(pk[1]), pick_pat(pk[2])];
    let sbuf = [pick_str(sk[0]), pick_str(sk[1]), pick_str(sk[2])];
    let pn: usize = kani::any();
    let sn: usize = kani::any();
    kani::assume(pn <= 3 && sn <= 3);
    let p = &pbuf[..pn];
    let s = &sbuf[..sn];
    let pstr = unsafe { std::str::from_utf8_unchecked(p) };
    let expected = like(s, p);
    kani::cover!(expected && pn == 3);
    // the if-chain of LikeRewrite::rewrite: the first classifier that fires decides the replacement
    if can_str_compare(pstr) {
        assert!(expected == (s == p), "LIKE -> '=' rewrite changes the result");
    } else if is_prefix_pattern(pstr) {
        assert!(expected == starts_with(s, trim_pct(p)), "LIKE -> starts_with rewrite changes the result");
    } else if is_suffix_pattern(pstr) {
        assert!(expected == ends_with(s, trim_pct(p)), "LIKE -> ends_with rewrite changes the result");
    } else if is_contains_pattern(pstr) {
        assert!(expected == contains(s, trim_pct(p)), "LIKE -> contains rewrite changes the result");
    }
}

// Bounded stand-in (NOT a proof): exhaustive native execution over every pattern of <= 4 CHARACTERS from
// {a, e-acute (2 bytes), %, _, backslash} and every string of <= 3 characters from {a, e-acute, backslash, newline};
// the symbolic version above exceeds CBMC's reach (std's string searchers).
fn like_chars(s: &[char], p: &[char]) -> bool {
    if p.is_empty() {
        return s.is_empty();
    }
    match p[0] {
        '%' => like_chars(s, &p[1..]) || (!s.is_empty() && like_chars(&s[1..], p)),
        '_' => !s.is_empty() && like_chars(&s[1..], &p[1..]),
        '\\' => {
            if p.len() > 1 {
                !s.is_empty() && s[0] == p[1] && like_chars(&s[1..], &p[2..])
            } else {
                s.len() == 1 && s[0] == '\\'
            }
        }
        c => !s.is_empty() && s[0] == c && like_chars(&s[1..], &p[1..]),
    }
}

fn enumerate_chars(alphabet: &[char], max_len: usize) -> Vec<Vec<char>> {
    let mut all: Vec<Vec<char>> = vec![vec![]];
    let mut frontier: Vec<Vec<char>> = vec![vec![]];
    for _ in 0..max_len {
        let mut next = Vec::new();
        for w in &frontier {
            for &c in alphabet {
                let mut x = w.clone();
                x.push(c);
                next.push(x);
            }
        }
        all.extend(next.iter().cloned());
        frontier = next;
    }
    all
}

#[test]
fn c02c20_like_rewrite__classifiers_equivalent__nat() {
    let pats = enumerate_chars(&['a', 'é', '%', '_', '\\'], 4);
    let strs = enumerate_chars(&['a', 'é', '\\', '\n'], 3);
    let mut checked = 0usize;
    for p in &pats {
        let pstr: String = p.iter().collect();
        // what the rule passes to starts_with / ends_with / contains
        let trimmed: &str = pstr.trim_matches('%');
        for s in &strs {
            let sstr: String = s.iter().collect();
            let expected = like_chars(s, p);
            let (got, rule) = if can_str_compare(&pstr) {
                (sstr == pstr, "=")
            } else if is_prefix_pattern(&pstr) {
                (sstr.starts_with(trimmed), "starts_with")
            } else if is_suffix_pattern(&pstr) {
                (sstr.ends_with(trimmed), "ends_with")
            } else if is_contains_pattern(&pstr) {
                (sstr.contains(trimmed), "contains")
            } else {
                continue;
            };
            checked += 1;
            assert!(got == expected, "LIKE rewrite to `{rule}` changes the result: {sstr:?} LIKE {pstr:?} is {expected}, rewritten form gives {got}");
        }
    }
    assert!(checked > 1000);
}

include!("/verif/build/kani-gen/like_rewrite.playback.rs");
