// C16 U1 (bounded: <= 4 elements per operation, 3 operations): DbVec<T> -- CBMC tracks every allocation, so this shows
// absence of out-of-bounds / misaligned / use-after-free / double free in the real unsafe code for these sizes, and that
// as_slice() equals the model sequence.
use super::*;
use crate::buffer::buffer_manager::DefaultBufferManager;

//@fn buffer/db_vec.rs DbVec::{new_from_slice, with_capacity, push_slice, push_slice_no_resize, resize_uninit, as_slice, as_slice_mut, drop}
//@fn buffer/db_vec.rs RawDbVec::{new_uninit_with_align, resize, drop}

fn stub_format(_: std::fmt::Arguments<'_>) -> String {
    String::new()
}
fn stub_backtrace_capture() -> std::backtrace::Backtrace {
    std::backtrace::Backtrace::disabled()
}

macro_rules! dbvec_seq {
    ($name:ident, $t:ty) => {
        #[kani::proof]
        #[kani::unwind(10)]
        #[kani::stub(std::fmt::format, stub_format)]
        #[kani::stub(std::backtrace::Backtrace::capture, stub_backtrace_capture)]
        fn $name() {
            let init: [$t; 2] = kani::any();
            let n0: usize = kani::any();
            kani::assume(n0 <= 2);
            let mut v = DbVec::<$t>::new_from_slice(&DefaultBufferManager, &init[..n0]).unwrap();
            assert!(v.len() == n0 && v.capacity() >= n0);
            assert!(v.as_slice() == &init[..n0]);
            // push (may reallocate)
            let more: [$t; 3] = kani::any();
            let n1: usize = kani::any();
            kani::assume(n1 <= 3);
            v.push_slice(&more[..n1]).unwrap();
            kani::cover!(n0 == 2 && n1 == 3);
            assert!(v.len() == n0 + n1 && v.capacity() >= v.len());
            let mut i = 0;
            while i < 5 {
                if i < n0 {
                    assert!(v.as_slice()[i] == init[i], "prefix lost by push_slice");
                } else if i < n0 + n1 {
                    assert!(v.as_slice()[i] == more[i - n0], "pushed element wrong");
                }
                i += 1;
            }
            // shrink keeps the prefix
            let keep: usize = kani::any();
            kani::assume(keep <= v.len());
            unsafe { v.resize_uninit(keep).unwrap() };
            assert!(v.len() == keep);
            if keep > 0 {
                assert!(v.as_slice()[0] == if n0 > 0 { init[0] } else { more[0] });
            }
            // push without resize: error exactly when it does not fit, vec unchanged on error
            let cap = v.capacity();
            let extra: [$t; 2] = kani::any();
            let r = v.push_slice_no_resize(&extra[..]);
            let ok = r.is_ok();
            std::mem::forget(r);
            assert!(ok == (keep + 2 <= cap));
            assert!(v.len() == if ok { keep + 2 } else { keep });
            if ok {
                assert!(v.as_slice()[keep] == extra[0] && v.as_slice()[keep + 1] == extra[1]);
            }
            // drop runs here: deallocation must be valid (no double free / invalid free)
        }
    };
}
dbvec_seq!(c16_dbvec_u8__ops_memory_safe__bnd__thr, u8);
dbvec_seq!(c16_dbvec_u64__ops_memory_safe__bnd__thr, u64);

include!("/verif/build/kani-gen/db_vec.playback.rs");
