// C10 U7 (bounded stand-in, native; NOT a proof): DELTA_LENGTH_BYTE_ARRAY and DELTA_BYTE_ARRAY pages decode to the strings
// they encode.  Encode / decode are an inverse pair: pages are produced by the crate's own reference encoders
// (encodings/encoding: DeltaLengthByteArrayEncoder, DeltaByteArrayEncoder, derived from the Parquet reference
// implementation) and read back by the column decoders, for EVERY value count 1..=140 (so: a page with a single value and
// no delta block, a partially filled last miniblock at every fill level and bit alignment, an exactly filled miniblock
// (33, 65, 97 values), an exactly filled block (129 values) and the first values of a second block) and three length
// patterns (constant length: bit width 0; small varying lengths; lengths needing more than 8 bits).
use glaredb_core::arrays::array::Array;
use glaredb_core::arrays::datatype::DataType;
use glaredb_core::arrays::scalar::BorrowedScalarValue;
use glaredb_core::buffer::buffer_manager::DefaultBufferManager;

use super::*;
use crate::column::encoding::Definitions;
use crate::column::encoding::delta_byte_array::DeltaByteArrayDecoder;
use crate::column::read_buffer::OwnedReadBuffer;
use crate::data_type::ByteArray;
use crate::encodings::encoding::{DeltaByteArrayEncoder, DeltaLengthByteArrayEncoder, Encoder};

//@fn column/encoding/delta_length_byte_array.rs DeltaLengthByteArrayDecoder::{try_new, read}
//@fn column/encoding/delta_byte_array.rs DeltaByteArrayDecoder::{try_new, read}
//@fn column/encoding/delta_binary_packed.rs DeltaBinaryPackedValueDecoder::{try_new, read, try_into_cursor} (length / prefix streams)

fn values(n: usize, pattern: usize) -> Vec<String> {
    (0..n)
        .map(|i| {
            let len = match pattern {
                0 => 3,
                1 => (i * 7) % 5,
                _ => if i % 9 == 4 { 300 } else { (i * 3) % 11 },
            };
            let c = (b'a' + (i % 26) as u8) as char;
            // shared prefixes for the DELTA_BYTE_ARRAY encoder
            let mut s = String::from(if i % 3 == 0 { "par" } else { "pe" });
            while s.len() < len {
                s.push(c);
            }
            s.truncate(len);
            s
        })
        .collect()
}

fn read_back(page: &[u8], n: usize, length_only: bool) -> std::result::Result<Vec<String>, String> {
    let mut buf = OwnedReadBuffer::from_bytes(&DefaultBufferManager, page).map_err(|e| e.to_string().lines().next().unwrap_or("").to_string())?;
    let cursor = buf.take_remaining();
    let mut out = Array::new(&DefaultBufferManager, DataType::utf8(), n).map_err(|e| e.to_string().lines().next().unwrap_or("").to_string())?;
    if length_only {
        let mut dec = DeltaLengthByteArrayDecoder::try_new(cursor, true).map_err(|e| e.to_string().lines().next().unwrap_or("").to_string())?;
        dec.read(Definitions::NoDefinitions, &mut out, 0, n).map_err(|e| e.to_string().lines().next().unwrap_or("").to_string())?;
    } else {
        let mut dec = DeltaByteArrayDecoder::try_new(cursor, true).map_err(|e| e.to_string().lines().next().unwrap_or("").to_string())?;
        dec.read(Definitions::NoDefinitions, &mut out, 0, n).map_err(|e| e.to_string().lines().next().unwrap_or("").to_string())?;
    }
    (0..n)
        .map(|r| match out.get_value(r).map_err(|e| e.to_string().lines().next().unwrap_or("").to_string())? {
            BorrowedScalarValue::Utf8(s) => Ok(s.to_string()),
            other => Err(format!("unexpected value {other:?}")),
        })
        .collect()
}

#[test]
fn c10_delta_byte_arrays__decode_what_the_reference_encoder_wrote__nat() {
    let mut failures: Vec<String> = Vec::new();
    let mut cases = 0usize;
    for length_only in [true, false] {
        let enc_name = if length_only { "DELTA_LENGTH_BYTE_ARRAY" } else { "DELTA_BYTE_ARRAY" };
        for pattern in 0..3 {
            for n in 1..=140usize {
                let vals = values(n, pattern);
                let bytes: Vec<ByteArray> = vals.iter().map(|s| ByteArray::from(s.as_bytes().to_vec())).collect();
                let page: Vec<u8> = if length_only {
                    let mut enc = DeltaLengthByteArrayEncoder::<ByteArray>::new();
                    enc.put(&bytes).unwrap();
                    enc.flush_buffer().unwrap().to_vec()
                } else {
                    let mut enc = DeltaByteArrayEncoder::<ByteArray>::new();
                    enc.put(&bytes).unwrap();
                    enc.flush_buffer().unwrap().to_vec()
                };
                let p2 = page.clone();
                let got = std::panic::catch_unwind(move || read_back(&p2, n, length_only));
                let ok = matches!(&got, Ok(Ok(g)) if g == &vals);
                if !ok {
                    let why = match got {
                        Err(_) => "the decoder panicked".to_string(),
                        Ok(Err(e)) => format!("the decoder failed: {e}"),
                        Ok(Ok(_)) => "wrong values".to_string(),
                    };
                    failures.push(format!("{enc_name} page of {n} values (length pattern {pattern}): {why}"));
                }
                cases += 1;
            }
        }
    }
    assert!(cases == 2 * 3 * 140);
    assert!(failures.is_empty(), "{} of {cases} valid pages are not read back; first: {}; value counts failing: {:?}", failures.len(), failures[0], failures.iter().take(12).collect::<Vec<_>>());
}
include!("/verif/build/kani-gen/pq_delta_len.playback.rs");
