use super::*;
// C07 (bounded stand-in, native; NOT a proof): the hash aggregate OPERATOR with DISTINCT and plain aggregates mixed in every
// order against the definition of GROUP BY.  Real operator driven through its poll interface (one partition: execute,
// finalize, drain through the distinct-merge / distinct-aggregate / final-merge phases).  Input: 7 rows
// (c0 BIGINT, c1 BIGINT with duplicates and a NULL, c2 group key with a NULL key, c3 = a copy of c1: one input column per
// aggregate argument, as the planner produces them); aggregates: every ordered selection of
// 2 or 3 of { SUM(c0), COUNT(DISTINCT c1), SUM(DISTINCT c1), COUNT(c1) } (36 lists); one row per distinct key (NULLs
// form one group) carrying each aggregate of precisely that group's rows.
use crate::arrays::array::Array;
use crate::arrays::scalar::BorrowedScalarValue;
use crate::expr::bind_aggregate_function;
use crate::functions::aggregate::builtin::count::FUNCTION_SET_COUNT;
use crate::functions::aggregate::builtin::sum::FUNCTION_SET_SUM;
use crate::testutil::operator::OperatorWrapper;
use crate::util::iter::TryFromExactSizeIterator;
use crate::expr;

//@fn execution/operators/hash_aggregate/mod.rs PhysicalHashAggregate::{poll_execute, poll_finalize_execute} (incl. the DISTINCT aggregate phases)

const C0: [i64; 7] = [1, 2, 3, 4, 5, 6, 7];
const C1: [Option<i64>; 7] = [Some(10), Some(10), Some(20), Some(30), Some(30), None, Some(10)];
const C2: [Option<&str>; 7] = [Some("a"), Some("a"), Some("a"), Some("b"), Some("b"), None, None];

#[derive(Clone, Copy, Debug, PartialEq)]
enum Agg {
    SumC0,
    CountDistinctC1,
    SumDistinctC1,
    CountC1,
}

fn build(a: Agg) -> PhysicalAggregateExpression {
    let (set, col, distinct) = match a {
        Agg::SumC0 => (&FUNCTION_SET_SUM, 0, false),
        Agg::CountDistinctC1 => (&FUNCTION_SET_COUNT, 1, true),
        // the planner projects one input column per aggregate argument: SUM(DISTINCT c1) reads its own copy of c1 (column 3)
        Agg::SumDistinctC1 => (&FUNCTION_SET_SUM, 3, true),
        Agg::CountC1 => (&FUNCTION_SET_COUNT, 1, false),
    };
    let f = bind_aggregate_function(set, vec![expr::column((0, col), DataType::int64())]).unwrap();
    let mut e = PhysicalAggregateExpression::new(f, [(col, DataType::int64())]);
    e.is_distinct = distinct;
    e
}

fn spec(a: Agg, rows: &[usize]) -> Option<i64> {
    match a {
        Agg::SumC0 => Some(rows.iter().map(|&r| C0[r]).sum()),
        Agg::CountC1 => Some(rows.iter().filter(|&&r| C1[r].is_some()).count() as i64),
        Agg::CountDistinctC1 | Agg::SumDistinctC1 => {
            let mut vals: Vec<i64> = rows.iter().filter_map(|&r| C1[r]).collect();
            vals.sort();
            vals.dedup();
            if a == Agg::CountDistinctC1 {
                Some(vals.len() as i64)
            } else if vals.is_empty() {
                None
            } else {
                Some(vals.iter().sum())
            }
        }
    }
}

fn run(list: &[Agg]) -> Vec<(Option<String>, Vec<Option<i64>>)> {
    let aggs = Aggregates { groups: vec![(2, DataType::utf8()).into()], grouping_functions: Vec::new(), aggregates: list.iter().map(|&a| build(a)).collect() };
    let wrapper = OperatorWrapper::new(PhysicalHashAggregate::new(aggs, vec![[0].into_iter().collect()]));
    let props = ExecutionProperties { batch_size: 16 };
    let op_state = wrapper.operator.create_operator_state(props).unwrap();
    let mut states = wrapper.operator.create_partition_execute_states(&op_state, props, 1).unwrap();
    let mut output = Batch::new(wrapper.operator.output_types.clone(), 16).unwrap();
    let mut input = Batch::from_arrays([
        Array::try_from_iter(C0.to_vec()).unwrap(),
        Array::try_from_iter(C1.to_vec()).unwrap(),
        Array::try_from_iter(C2.to_vec()).unwrap(),
        Array::try_from_iter(C1.to_vec()).unwrap(),
    ])
    .unwrap();
    assert!(wrapper.poll_execute(&op_state, &mut states[0], &mut input, &mut output).unwrap() == PollExecute::NeedsMore);
    assert!(wrapper.poll_finalize_execute(&op_state, &mut states[0]).unwrap() == PollFinalize::NeedsDrain);
    let mut rows = Vec::new();
    for _ in 0..64 {
        let poll = wrapper.poll_execute(&op_state, &mut states[0], &mut input, &mut output).unwrap();
        for r in 0..output.num_rows() {
            let key = match output.arrays[0].get_value(r).unwrap() {
                BorrowedScalarValue::Null => None,
                BorrowedScalarValue::Utf8(s) => Some(s.to_string()),
                other => panic!("unexpected key {other:?}"),
            };
            let vals = (0..list.len())
                .map(|i| match output.arrays[1 + i].get_value(r).unwrap() {
                    BorrowedScalarValue::Null => None,
                    BorrowedScalarValue::Int64(v) => Some(v),
                    other => panic!("unexpected aggregate value {other:?}"),
                })
                .collect();
            rows.push((key, vals));
        }
        match poll {
            PollExecute::HasMore => continue,
            PollExecute::Exhausted => {
                rows.sort();
                return rows;
            }
            other => panic!("unexpected poll: {other:?}"),
        }
    }
    panic!("hash aggregate did not finish");
}

#[test]
fn c07_hash_aggregate_operator__distinct_and_plain_aggregates_per_group__nat() {
    let all = [Agg::SumC0, Agg::CountDistinctC1, Agg::SumDistinctC1, Agg::CountC1];
    let mut lists: Vec<Vec<Agg>> = Vec::new();
    for &a in &all {
        for &b in &all {
            if a == b {
                continue;
            }
            lists.push(vec![a, b]);
            for &c in &all {
                if c != a && c != b {
                    lists.push(vec![a, b, c]);
                }
            }
        }
    }
    assert!(lists.len() == 36);
    // groups by key
    let mut keys: Vec<Option<&str>> = C2.to_vec();
    keys.sort();
    keys.dedup();
    for list in &lists {
        let mut want: Vec<(Option<String>, Vec<Option<i64>>)> = keys
            .iter()
            .map(|k| {
                let rows: Vec<usize> = (0..7).filter(|&r| C2[r] == *k).collect();
                (k.map(|s| s.to_string()), list.iter().map(|&a| spec(a, &rows)).collect())
            })
            .collect();
        want.sort();
        let l2 = list.clone();
        let got = match std::panic::catch_unwind(move || run(&l2)) {
            Ok(g) => g,
            Err(_) => panic!("GROUP BY c2 with aggregates {list:?}: the operator panicked"),
        };
        assert!(got == want, "GROUP BY c2 with aggregates {list:?}: got {got:?}, the definition gives {want:?}");
    }
}
include!("/verif/build/kani-gen/hash_agg_op.playback.rs");
