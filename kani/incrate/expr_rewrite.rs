// C02 U5 (bounded stand-in, native; NOT a proof): every expression rewrite rule is an EQUIVALENCE in three-valued logic.
// The rules work on heap-allocated `Expression` trees (Box / Vec / HashMap / IndexSet: out of reach of Verus, and CBMC
// exhausts memory on the hash containers), so the real rules are executed on every member of a stated finite family:
//   atoms   t0.c0 = 1, t0.c0 = 2, t1.c0 = 2, t1.c0 = 3, t0.c0 = t1.c0, TRUE, NULL
//   shapes  atom | OR(x, y) | AND(x, y) | OR(x, y, z)  with x, y, z atoms or AND/OR of two atoms  (depth <= 2)
//   rules   DistributiveOrRewrite, UnnestConjunctionRewrite, JoinFilterOrRewrite, ConstFold each on its own, then the
//           optimizer's pipeline stage by stage (LikeRewrite, ConstFold, UnnestConjunction, DistributiveOr = what
//           ExpressionRewriter::apply_rewrites does, checked to be that composition) followed by JoinFilterOrRewrite
//           (as for Filter / ArbitraryJoin)
//   rows    every (t0.c0, t1.c0) in {NULL, 1, 2, 3}^2
// Specification: a small interpreter of AND / OR / comparison / literal in Kleene logic, written from the SQL
// definition.  The rewritten expression must evaluate to the same TRUE / FALSE / NULL on every row.
use super::*;
use crate::arrays::datatype::DataType;
use crate::arrays::scalar::ScalarValue;
use crate::expr::comparison_expr::ComparisonOperator;
use crate::expr::conjunction_expr::ConjunctionOperator;
use crate::expr::{and, column, eq, lit, or};

//@fn optimizer/expr_rewrite/distributive_or.rs DistributiveOrRewrite::rewrite (+ maybe_rewrite_or)
//@fn optimizer/expr_rewrite/unnest_conjunction.rs UnnestConjunctionRewrite::rewrite
//@fn optimizer/expr_rewrite/join_filter_or.rs JoinFilterOrRewrite::rewrite (+ maybe_rewrite_or, extract_and_exprs)
//@fn optimizer/expr_rewrite/const_fold.rs ConstFold::rewrite (on boolean trees)
//@fn optimizer/expr_rewrite/mod.rs ExpressionRewriter::apply_rewrites

#[derive(Clone, Copy, PartialEq, Eq, Debug)]
enum V {
    Null,
    Int(i64),
    Bool(bool),
}

/// None: the expression uses something outside the interpreted fragment.
fn eval(e: &Expression, row: [Option<i64>; 2]) -> Option<V> {
    Some(match e {
        Expression::Column(c) => match row[c.reference.table_scope.table_idx] {
            Some(v) => V::Int(v),
            None => V::Null,
        },
        Expression::Literal(l) => match &l.0 {
            ScalarValue::Null => V::Null,
            ScalarValue::Boolean(b) => V::Bool(*b),
            ScalarValue::Int32(v) => V::Int(*v as i64),
            ScalarValue::Int64(v) => V::Int(*v),
            _ => return None,
        },
        Expression::Cast(c) => eval(&c.expr, row)?,
        Expression::Comparison(c) => {
            let (l, r) = (eval(&c.left, row)?, eval(&c.right, row)?);
            match (l, r) {
                (V::Int(a), V::Int(b)) => V::Bool(match c.op {
                    ComparisonOperator::Eq | ComparisonOperator::IsNotDistinctFrom => a == b,
                    ComparisonOperator::NotEq | ComparisonOperator::IsDistinctFrom => a != b,
                    ComparisonOperator::Lt => a < b,
                    ComparisonOperator::LtEq => a <= b,
                    ComparisonOperator::Gt => a > b,
                    ComparisonOperator::GtEq => a >= b,
                }),
                (V::Null, V::Null) => match c.op {
                    ComparisonOperator::IsNotDistinctFrom => V::Bool(true),
                    ComparisonOperator::IsDistinctFrom => V::Bool(false),
                    _ => V::Null,
                },
                (V::Null, _) | (_, V::Null) => match c.op {
                    ComparisonOperator::IsNotDistinctFrom => V::Bool(false),
                    ComparisonOperator::IsDistinctFrom => V::Bool(true),
                    _ => V::Null,
                },
                _ => return None,
            }
        }
        Expression::Conjunction(c) => {
            let mut any_null = false;
            let dominant = c.op == ConjunctionOperator::Or;
            let mut hit = false;
            for child in &c.expressions {
                match eval(child, row)? {
                    V::Bool(b) if b == dominant => hit = true,
                    V::Bool(_) => (),
                    V::Null => any_null = true,
                    V::Int(_) => return None,
                }
            }
            if hit {
                V::Bool(dominant)
            } else if any_null {
                V::Null
            } else {
                V::Bool(!dominant)
            }
        }
        _ => return None,
    })
}

fn atoms() -> Vec<Expression> {
    let t0: Expression = column((0, 0), DataType::int32());
    let t1: Expression = column((1, 0), DataType::int32());
    vec![
        eq(t0.clone(), lit(1)).unwrap().into(),
        eq(t0.clone(), lit(2)).unwrap().into(),
        eq(t1.clone(), lit(2)).unwrap().into(),
        eq(t1.clone(), lit(3)).unwrap().into(),
        eq(t0.clone(), t1.clone()).unwrap().into(),
        lit(true).into(),
        Expression::Literal(crate::expr::literal_expr::LiteralExpr(ScalarValue::Null)),
    ]
}

fn family() -> Vec<Expression> {
    let atoms = atoms();
    // level 1: atoms and AND / OR of two atoms
    let mut l1: Vec<Expression> = atoms.clone();
    for (i, a) in atoms.iter().enumerate() {
        for b in &atoms[i + 1..] {
            l1.push(and([a.clone(), b.clone()]).unwrap().into());
            l1.push(or([a.clone(), b.clone()]).unwrap().into());
        }
    }
    let mut out = l1.clone();
    for a in &l1 {
        for b in &l1 {
            out.push(or([a.clone(), b.clone()]).unwrap().into());
            out.push(and([a.clone(), b.clone()]).unwrap().into());
        }
    }
    // three-way ORs of ANDs (the shape DistributiveOr / JoinFilterOr look for), every third combination
    let ands: Vec<&Expression> = l1.iter().filter(|e| matches!(e, Expression::Conjunction(c) if c.op == ConjunctionOperator::And)).collect();
    for (i, a) in ands.iter().enumerate() {
        for (j, b) in ands.iter().enumerate() {
            for (k, c) in atoms.iter().enumerate() {
                if (i + j + k) % 3 == 0 {
                    out.push(or([(*a).clone(), (*b).clone(), c.clone()]).unwrap().into());
                    out.push(or([c.clone(), (*a).clone(), (*b).clone()]).unwrap().into());
                }
            }
        }
    }
    out
}

fn conjuncts(e: &Expression) -> Vec<&Expression> {
    match e {
        Expression::Conjunction(c) if c.op == ConjunctionOperator::And => c.expressions.iter().collect(),
        other => vec![other],
    }
}

/// The input class of the recorded finding (known_findings.json): somewhere in `e` there is an OR one of whose branches
/// consists only of conjuncts shared by every branch, e.g. `a OR (a AND b)` -- by absorption the OR equals the shared
/// conjuncts.  Computed from the INPUT expression only, independently of the rule under test.
fn has_absorbed_or_branch(e: &Expression) -> bool {
    let mut found = false;
    if let Expression::Conjunction(c) = e {
        if c.op == ConjunctionOperator::Or && c.expressions.len() >= 2 {
            let first = conjuncts(&c.expressions[0]);
            let common: Vec<&Expression> = first.into_iter().filter(|x| c.expressions[1..].iter().all(|ch| conjuncts(ch).contains(x))).collect();
            if !common.is_empty() && c.expressions.iter().any(|ch| conjuncts(ch).iter().all(|x| common.contains(x))) {
                found = true;
            }
        }
        for ch in &c.expressions {
            found = found || has_absorbed_or_branch(ch);
        }
    }
    found
}

struct Tally {
    checked: usize,
    changed: usize,
    known: usize,
    first_known: Option<String>,
}

/// Check `rule` on `e` over every row; a mismatch panics unless `known_class` (then it is tallied).
fn check_rule(name: &str, rule: fn(Expression) -> Result<Expression>, e: &Expression, known_class: bool, t: &mut Tally) -> Expression {
    let dom = [None, Some(1i64), Some(2), Some(3)];
    let got = match rule(e.clone()) {
        Ok(g) => g,
        Err(err) => panic!("{name} failed on {e}: {err}"),
    };
    if &got != e {
        t.changed += 1;
    }
    for a in dom {
        for b in dom {
            let Some(want) = eval(e, [a, b]) else { continue };
            let Some(have) = eval(&got, [a, b]) else { continue };
            if have != want {
                let msg = format!("{name} changes the value of an expression: `{e}` is {want:?} on (t0.c0, t1.c0) = ({a:?}, {b:?}), rewritten `{got}` is {have:?}");
                if known_class {
                    t.known += 1;
                    if t.first_known.is_none() {
                        t.first_known = Some(msg);
                    }
                    return got;
                }
                panic!("{msg}");
            }
            t.checked += 1;
        }
    }
    got
}

#[test]
fn c02_expr_rewrites__truth_value_preserved__nat() {
    let fam = family();
    let mut t = Tally { checked: 0, changed: 0, known: 0, first_known: None };
    for e in &fam {
        assert!(eval(e, [None, None]).is_some(), "family is inside the interpreted fragment");
        // every rule on its own
        check_rule("DistributiveOrRewrite", DistributiveOrRewrite::rewrite, e, has_absorbed_or_branch(e), &mut t);
        check_rule("UnnestConjunctionRewrite", UnnestConjunctionRewrite::rewrite, e, false, &mut t);
        check_rule("JoinFilterOrRewrite", JoinFilterOrRewrite::rewrite, e, false, &mut t);
        check_rule("ConstFold", ConstFold::rewrite, e, false, &mut t);
        // the optimizer's pipeline, stage by stage (each stage on the previous stage's output) ...
        let e1 = check_rule("LikeRewrite", LikeRewrite::rewrite, e, false, &mut t);
        let e2 = check_rule("ConstFold (after LikeRewrite)", ConstFold::rewrite, &e1, false, &mut t);
        let e3 = check_rule("UnnestConjunctionRewrite (after ConstFold)", UnnestConjunctionRewrite::rewrite, &e2, false, &mut t);
        let e4 = check_rule("DistributiveOrRewrite (after UnnestConjunction)", DistributiveOrRewrite::rewrite, &e3, has_absorbed_or_branch(&e3), &mut t);
        let e5 = check_rule("JoinFilterOrRewrite (after apply_rewrites)", JoinFilterOrRewrite::rewrite, &e4, false, &mut t);
        // ... and as the one call the optimizer makes: if it is not the composition above, it is checked directly
        let all = ExpressionRewriter::apply_rewrites(e.clone()).unwrap();
        if all != e4 {
            check_rule("ExpressionRewriter::apply_rewrites", ExpressionRewriter::apply_rewrites, e, false, &mut t);
        }
        let _ = e5;
    }
    assert!(t.checked > 100_000, "checked only {}", t.checked);
    assert!(t.changed > 500, "rules rewrote only {} expressions", t.changed);
    if t.known > 0 {
        panic!(
            "KNOWN-SHAPE DistributiveOrRewrite absorption: {} expressions with an OR branch made only of conjuncts shared by every branch (`a OR (a AND b)`) change value; first: {}",
            t.known,
            t.first_known.unwrap()
        );
    }
}

include!("/verif/build/kani-gen/expr_rewrite.playback.rs");
