// C06 U4 (bounded: at most 4 rows): unmatched-row enumeration of the nested-loop join.
// The iterator yields exactly the indices i with matches[i] == B, ascending, each once; rem_count is their number.
use super::*;

//@fn execution/operators/nested_loop_join/match_tracker.rs MatchIndexIter::<B>::{new, next, size_hint}
//@fn execution/operators/nested_loop_join/match_tracker.rs MatchTracker::{ensure_initialized, set_match, reset}

fn check_iter<const B: bool>(m: &[bool]) {
    let mut it = MatchIndexIter::<B>::new(m);
    let mut expect_count = 0;
    let mut i = 0;
    while i < m.len() {
        if m[i] == B {
            expect_count += 1;
        }
        i += 1;
    }
    assert!(it.rem_count == expect_count, "rem_count is not the number of rows with matches[i] == B");
    assert!(it.size_hint() == (expect_count, Some(expect_count)));
    // walk: every index with m[i] == B, ascending, each once; then None forever
    let mut i = 0;
    while i < m.len() {
        if m[i] == B {
            let got = it.next();
            assert!(got == Some(i), "iterator skipped, repeated or reordered a row");
        }
        i += 1;
    }
    assert!(it.next().is_none(), "iterator yields more rows than exist");
    assert!(it.next().is_none());
}

#[kani::proof]
#[kani::unwind(6)]
fn c06_match_iter__exact_rows__bnd() {
    let buf: [bool; 4] = kani::any();
    let n: usize = kani::any();
    kani::assume(n <= 4);
    kani::cover!(n == 4 && buf[0] && !buf[1] && buf[2] && !buf[3]);
    kani::cover!(n == 0);
    check_iter::<false>(&buf[..n]);
    check_iter::<true>(&buf[..n]);
}

// the tracker: a match once set stays set; growing keeps existing matches; reset clears
#[kani::proof]
#[kani::unwind(6)]
fn c06_match_tracker__set_persist__bnd() {
    let mut t = MatchTracker::empty();
    t.ensure_initialized(3);
    assert!(t.matches.len() == 3 && !t.matches[0] && !t.matches[1] && !t.matches[2]);
    let r: usize = kani::any();
    kani::assume(r < 3);
    t.set_match(r);
    t.ensure_initialized(3);
    kani::cover!(r == 1);
    let mut i = 0;
    while i < 3 {
        assert!(t.matches[i] == (i == r), "set_match touched another row or a repeated ensure_initialized cleared a match");
        i += 1;
    }
    t.reset();
    assert!(t.matches.len() == 0);
}

include!("/verif/build/kani-gen/match_tracker.playback.rs");
