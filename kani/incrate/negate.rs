// C12: unary minus kernels; C05: NOT kernel
use super::*;
use crate::verif_kani::with_put1;
include!("/verif/build/kani-gen/negate.kernels.rs");

//@fn functions/scalar/builtin/negate.rs closure of Negate<S>::execute (i8..i128)
//@fn functions/scalar/builtin/negate.rs closure of Not::execute

macro_rules! neg_suite {
    ($exact:ident, $err:ident, $S:ty, $t:ty) => {
        #[kani::proof]
        fn $exact() {
            let a: $t = kani::any();
            kani::assume(a != <$t>::MIN);
            kani::cover!(a > 0);
            let (v, ok) = with_put1!($t, 0, |buf| k_negate::<$S>(&a, buf));
            assert!(ok, "NULL produced for a representable result");
            assert!(v.checked_add(a) == Some(0), "-a + a != 0");
        }
        #[kani::proof]
        fn $err() {
            let a: $t = <$t>::MIN;
            kani::cover!(true);
            let (_v, ok) = with_put1!($t, 0, |buf| k_negate::<$S>(&a, buf));
            assert!(!ok, "a value was produced although -MIN is not representable");
        }
    };
}
neg_suite!(c12_neg_i8__exact, c12_neg_i8__error_when_not, PhysicalI8, i8);
neg_suite!(c12_neg_i16__exact, c12_neg_i16__error_when_not, PhysicalI16, i16);
neg_suite!(c12_neg_i32__exact, c12_neg_i32__error_when_not, PhysicalI32, i32);
neg_suite!(c12_neg_i64__exact, c12_neg_i64__error_when_not, PhysicalI64, i64);
neg_suite!(c12_neg_i128__exact, c12_neg_i128__error_when_not, PhysicalI128, i128);

#[kani::proof]
fn c05_not_kernel__def() {
    let a: bool = kani::any();
    kani::cover!(a);
    let (v, ok) = with_put1!(bool, false, |buf| k_not(&a, buf));
    assert!(ok && v != a);
}

include!("/verif/build/kani-gen/negate.playback.rs");
