#!/usr/bin/env python3
"""Confirm a seeded change in a scratch worktree:
   1. demo only            -> demo PASSES
   2. patch + demo         -> crate compiles, demo FAILS
   3. patch only           -> the touched crate's existing tests pass
usage: confirm_seed.py <worktree> <seed dir> [--skip-suite]
Writes <seed dir>/confirm.json.  Leaves the worktree clean."""
import json, os, re, subprocess, sys, time

wt, sd = sys.argv[1], sys.argv[2]
skip_suite = '--skip-suite' in sys.argv
ENV = dict(os.environ, CARGO_NET_OFFLINE='true')


def sh(cmd, cwd=wt, timeout=3600):
    p = subprocess.run(cmd, cwd=cwd, shell=True, stdout=subprocess.PIPE, stderr=subprocess.STDOUT, text=True, env=ENV, timeout=timeout)
    return p.returncode, p.stdout


def clean():
    sh('git checkout -- . && git clean -fdq -e target')


patch = os.path.join(sd, 'patch.diff')
demo_diff = os.path.join(sd, 'demo.diff')
demo_sh = os.path.join(sd, 'demo.sh')
ptxt = open(patch).read()
crates = sorted(set(re.findall(r'^\+\+\+ b/crates/([^/]+)/', ptxt, re.M)))
res = dict(seed=sd, crates=crates, steps=[])
clean()
tests = []
demo_crates = crates
if os.path.exists(demo_diff):
    dtxt = open(demo_diff).read()
    tests = re.findall(r'^\+\s*#\[test\]\s*\n\+\s*(?:pub\s+)?fn\s+(\w+)', dtxt, re.M)
    if not tests:
        tests = [m for m in re.findall(r'^\+\s*fn\s+(\w+)\s*\(\s*\)', dtxt, re.M)]
    demo_crates = sorted(set(re.findall(r'^\+\+\+ b/crates/([^/]+)/', dtxt, re.M))) or crates


def run_demo(tag):
    if tests:
        rcs = []
        out_all = ''
        for c in demo_crates:
            flt = ' '.join(tests)
            rc, out = sh('cargo nextest run -p %s --offline --no-fail-fast %s 2>&1 | tail -25' % (c, flt))
            # nextest exit code is lost through the pipe; parse summary
            ok = re.search(r'(\d+) passed', out) and not re.search(r'(\d+) failed', out) and 'error' not in out.split('Summary')[-1]
            rcs.append(bool(ok))
            out_all += out
        return all(rcs), out_all[-1500:]
    else:
        rc, out = sh('cargo build -p glaredb --offline 2>&1 | tail -3')
        rc, out = sh('bash %s %s/target/debug/glaredb' % (demo_sh, wt), timeout=1800)
        return rc == 0, out[-1500:]


t0 = time.time()
# 1. demo only
if os.path.exists(demo_diff):
    rc, out = sh('git apply %s' % demo_diff)
    assert rc == 0, out
ok1, out1 = run_demo('demo-only')
res['steps'].append(dict(step='demo without the change', passed=ok1, tail=out1[-600:]))
clean()
# 2. patch + demo
rc, out = sh('git apply %s' % patch)
assert rc == 0, out
if os.path.exists(demo_diff):
    rc, out = sh('git apply %s' % demo_diff)
    assert rc == 0, out
rc, out = sh(' && '.join('cargo check -p %s --offline 2>&1 | tail -3' % c for c in crates))
compiles = 'error' not in out
ok2, out2 = run_demo('patch+demo')
res['steps'].append(dict(step='demo with the change', compiles=compiles, passed=ok2, tail=out2[-600:]))
clean()
# 3. patch only: existing tests of the touched crates
suite_ok = None
if not skip_suite:
    rc, out = sh('git apply %s' % patch)
    suite_ok = True
    for c in crates:
        rc, out = sh('cargo nextest run -p %s --offline --no-fail-fast 2>&1 | tail -6' % c)
        m = re.search(r'(\d+) passed', out)
        bad = re.search(r'(\d+) failed', out)
        if not m or bad:
            suite_ok = False
        res['steps'].append(dict(step='existing tests of %s with the change' % c, tail=out[-400:]))
    clean()
res['confirmed'] = bool(ok1 and compiles and (not ok2) and (suite_ok is not False))
res['suite_ok'] = suite_ok
res['wall_s'] = round(time.time() - t0, 1)
json.dump(res, open(os.path.join(sd, 'confirm.json'), 'w'), indent=1)
print(sd, 'confirmed' if res['confirmed'] else 'NOT CONFIRMED', 'demo-without=%s demo-with=%s compiles=%s suite=%s' % (ok1, ok2, compiles, suite_ok), '%.0fs' % res['wall_s'])
