"""Token-aware extraction of Rust items / closures from /repo source text.

No parsing beyond what is needed to find balanced delimiters while skipping
comments, string/char literals and lifetimes.  Everything returned is a
verbatim substring of the source file (callers can assert that).
"""
import hashlib
import re


class ExtractError(Exception):
    pass


def code_mask(text):
    """mask[i] is True iff text[i] is code (not inside comment / string / char literal)."""
    n = len(text)
    mask = [True] * n
    i = 0
    while i < n:
        c = text[i]
        if c == '/' and i + 1 < n and text[i + 1] == '/':
            j = text.find('\n', i)
            if j < 0:
                j = n
            for k in range(i, j):
                mask[k] = False
            i = j
        elif c == '/' and i + 1 < n and text[i + 1] == '*':
            depth = 1
            j = i + 2
            while j < n and depth > 0:
                if text.startswith('/*', j):
                    depth += 1
                    j += 2
                elif text.startswith('*/', j):
                    depth -= 1
                    j += 2
                else:
                    j += 1
            for k in range(i, j):
                mask[k] = False
            i = j
        elif c == '"' or (c in 'rb' and re.match(r'(?:b?r#*"|b")', text[i:i + 8]) and (i == 0 or not (text[i - 1].isalnum() or text[i - 1] == '_'))):
            m = re.match(r'(b?)(r(#*))?"', text[i:i + 40])
            if not m:
                i += 1
                continue
            raw = m.group(2) is not None
            hashes = m.group(3) or ''
            j = i + m.end()
            if raw:
                end = text.find('"' + hashes, j)
                if end < 0:
                    raise ExtractError('unterminated raw string')
                j = end + 1 + len(hashes)
            else:
                while j < n and text[j] != '"':
                    if text[j] == '\\':
                        j += 1
                    j += 1
                j += 1
            for k in range(i, min(j, n)):
                mask[k] = False
            i = j
        elif c == "'":
            # char literal or lifetime
            if i + 1 < n and text[i + 1] == '\\':
                j = i + 2
                while j < n and text[j] != "'":
                    j += 1
                j += 1
                for k in range(i, min(j, n)):
                    mask[k] = False
                i = j
            elif i + 2 < n and text[i + 2] == "'":
                for k in range(i, i + 3):
                    mask[k] = False
                i += 3
            else:
                # could be a multi-byte char literal like 'é' (python str: 1 char) -> handled above;
                # otherwise a lifetime
                i += 1
        elif c == 'b' and i + 1 < n and text[i + 1] == "'" and (i == 0 or not (text[i - 1].isalnum() or text[i - 1] == '_')):
            i += 1
        else:
            i += 1
    return mask


OPEN = {'(': ')', '[': ']', '{': '}'}


class Src:
    def __init__(self, path):
        self.path = path
        self.text = open(path, encoding='utf-8').read()
        self.mask = code_mask(self.text)

    # --- primitive scanning -------------------------------------------------
    def match_close(self, i):
        """text[i] is an opening ( [ {; return index of the matching closer."""
        t, m = self.text, self.mask
        stack = [OPEN[t[i]]]
        j = i + 1
        n = len(t)
        while j < n:
            if m[j]:
                c = t[j]
                if c in OPEN:
                    stack.append(OPEN[c])
                elif c in ')]}':
                    if c != stack[-1]:
                        raise ExtractError('unbalanced delimiters at %d in %s' % (j, self.path))
                    stack.pop()
                    if not stack:
                        return j
            j += 1
        raise ExtractError('no closing delimiter for %d in %s' % (i, self.path))

    def match_angle(self, i):
        """text[i] == '<' in type position; return index of matching '>'."""
        t, m = self.text, self.mask
        depth = 0
        j = i
        n = len(t)
        while j < n:
            if m[j]:
                c = t[j]
                if c == '<':
                    depth += 1
                elif c == '>' and t[j - 1] not in '-=':
                    depth -= 1
                    if depth == 0:
                        return j
                elif c in OPEN:
                    j = self.match_close(j)
            j += 1
        raise ExtractError('no closing > for %d in %s' % (i, self.path))

    def find_code(self, pattern, start=0, end=None, flags=0):
        """iterate regex matches whose first char is code."""
        end = len(self.text) if end is None else end
        for mo in re.compile(pattern, flags).finditer(self.text, start, end):
            if self.mask[mo.start()]:
                yield mo

    def next_code_char(self, ch, start, end=None):
        end = len(self.text) if end is None else end
        j = start
        while j < end:
            if self.mask[j] and self.text[j] == ch:
                return j
            j += 1
        raise ExtractError('no %r after %d in %s' % (ch, start, self.path))

    # --- items ----------------------------------------------------------------
    def find_block_item(self, header_pattern, start=0, end=None, nth=0):
        """Find an item whose header matches `header_pattern` (regex, anchored at a
        code position) and which has a `{...}` body.  Returns (hdr_start, body_open, body_close)."""
        k = 0
        for mo in self.find_code(header_pattern, start, end, re.S):
            if k == nth:
                # walk to the opening brace, skipping balanced () [] and <> is not needed:
                j = mo.end()
                t, m = self.text, self.mask
                while True:
                    if m[j]:
                        if t[j] == '{':
                            break
                        if t[j] in '([':
                            j = self.match_close(j)
                        elif t[j] == ';':
                            raise ExtractError('item %r has no body in %s' % (header_pattern, self.path))
                    j += 1
                return mo.start(), j, self.match_close(j)
            k += 1
        raise ExtractError('item %r (nth=%d) not found in %s' % (header_pattern, nth, self.path))

    def item_text(self, header_pattern, start=0, end=None, nth=0, with_attrs=False):
        s, o, c = self.find_block_item(header_pattern, start, end, nth)
        if with_attrs:
            s = self._attrs_start(s)
        return self.text[s:c + 1]

    def _attrs_start(self, s):
        # include preceding #[...] lines and doc comments directly above
        lines_before = self.text[:s].split('\n')
        # last element is the partial line before the header (indent)
        idx = len(lines_before) - 1
        k = idx - 1
        while k >= 0 and re.match(r'\s*(#\[|///)', lines_before[k]):
            k -= 1
        start_line = k + 1
        return len('\n'.join(lines_before[:start_line])) + (1 if start_line > 0 else 0)

    def impl_parts(self, header_pattern, nth=0):
        """For `impl<G> Trait for Ty where W { body }` return dict(generics, where, head, body_open, body_close)."""
        s, o, c = self.find_block_item(header_pattern, nth=nth)
        hdr = self.text[s:o]
        mo = re.match(r'impl\s*(<)?', hdr)
        generics = ''
        rest_start = mo.end()
        if mo.group(1):
            lt = s + mo.start(1)
            gt = self.match_angle(lt)
            generics = self.text[lt:gt + 1]
            rest_start = gt + 1 - s
        rest = hdr[rest_start:]
        wm = re.search(r'\bwhere\b', rest)
        where = rest[wm.start():].strip() if wm else ''
        head = (rest[:wm.start()] if wm else rest).strip()
        return dict(generics=generics, where=where, head=head, start=s, body_open=o, body_close=c)

    def fn_in(self, name, start, end, nth=0):
        """Find `fn name` between start..end; returns (sig_start, body_open, body_close)."""
        return self.find_block_item(r'(?:pub(?:\([a-z]+\))?\s+)?(?:const\s+)?(?:unsafe\s+)?fn\s+%s\b' % re.escape(name), start, end, nth)

    def fn_text(self, name, start=0, end=None, nth=0, with_attrs=False):
        end = len(self.text) if end is None else end
        s, o, c = self.fn_in(name, start, end, nth)
        if with_attrs:
            s = self._attrs_start(s)
        return self.text[s:c + 1]

    # --- calls ----------------------------------------------------------------
    def calls(self, callee_pattern, start, end):
        """Yield dict(turbofish, args[list of (s,e)], open, close) for each call `callee::<T..>(args)`."""
        for mo in self.find_code(callee_pattern, start, end):
            j = mo.end()
            t = self.text
            while t[j].isspace():
                j += 1
            turbofish = ''
            tf_span = None
            if t.startswith('::', j):
                k = j + 2
                while t[k].isspace():
                    k += 1
                if t[k] == '<':
                    gt = self.match_angle(k)
                    turbofish = t[k + 1:gt]
                    tf_span = (k + 1, gt)
                    j = gt + 1
                    while t[j].isspace():
                        j += 1
            if t[j] != '(':
                continue
            close = self.match_close(j)
            yield dict(turbofish=turbofish, tf_span=tf_span, args=self.split_args(j + 1, close), open=j, close=close, start=mo.start())

    def split_args(self, s, e):
        """split text[s:e] at top-level commas -> list of (start,end) with whitespace trimmed."""
        t, m = self.text, self.mask
        out = []
        j = s
        a = s
        in_closure_params = False
        while j < e:
            if m[j]:
                c = t[j]
                if c in OPEN:
                    j = self.match_close(j)
                elif c == '|' :
                    # closure parameter list: skip to the closing bar (no nested bars in params here)
                    if not in_closure_params and self._starts_closure(a, j):
                        k = j + 1
                        while not (m[k] and t[k] == '|'):
                            if m[k] and t[k] in OPEN:
                                k = self.match_close(k)
                            k += 1
                        j = k
                elif c == '<' and self._generic_lt(j):
                    try:
                        j = self.match_angle(j)
                    except ExtractError:
                        pass
                elif c == ',':
                    out.append((a, j))
                    a = j + 1
            j += 1
        if t[a:e].strip():
            out.append((a, e))
        res = []
        for (x, y) in out:
            while x < y and t[x].isspace():
                x += 1
            while y > x and t[y - 1].isspace():
                y -= 1
            res.append((x, y))
        return res

    def _starts_closure(self, arg_start, j):
        pre = self.text[arg_start:j].strip()
        return pre in ('', 'move')

    def _generic_lt(self, j):
        # `::<` turbofish or `Ident<` directly attached with uppercase type name
        t = self.text
        if t[j - 2:j] == '::':
            return True
        return False

    def sha(self, s):
        return hashlib.sha256(s.encode()).hexdigest()[:16]


def dedent(s):
    lines = s.split('\n')
    ind = None
    for ln in lines[1:]:
        if ln.strip():
            k = len(ln) - len(ln.lstrip())
            ind = k if ind is None else min(ind, k)
    if not ind:
        return s
    return '\n'.join([lines[0]] + [ln[ind:] if len(ln) >= ind else ln for ln in lines[1:]])
