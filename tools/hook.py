#!/usr/bin/env python3
"""Install / list the add-only cfg(kani) hooks in /repo.  Usage: tools_hook.py install <repo-relative file> <hook name>"""
import sys
TEMPLATE = '''
// Verification hook: inert unless built by `cargo kani` (cfg(kani)); the proof
// harnesses live outside the repository.
#[cfg(kani)]
#[allow(unused, dead_code, non_snake_case, clippy::all)]
mod verif_kani {
    include!("/verif/build/kani-gen/%s.harness.rs");
}
'''
def install(path, hook):
    s = open(path).read()
    if 'mod verif_kani' in s:
        print('already hooked', path); return
    if not s.endswith('\n'):
        s += '\n'
    open(path, 'w').write(s + TEMPLATE % hook)
    print('hooked', path, hook)
def register(path, hook):
    import json, os, re
    reg = os.path.join(os.path.dirname(os.path.abspath(__file__)), '..', 'units', 'hooks.json')
    d = json.load(open(reg))
    if any(h['hook'] == hook for h in d['hooks']):
        return
    crate = re.match(r'crates/([^/]+)/', path).group(1)
    d['hooks'].append(dict(hook=hook, crate=crate, file=path))
    open(reg, 'w').write('{"hooks": [\n' + ',\n'.join(' ' + json.dumps(h) for h in d['hooks']) + '\n]}\n')
if __name__ == '__main__':
    # usage (cwd=/repo): hook.py install <repo-relative file> <hook name>
    if sys.argv[1] == 'install':
        install(sys.argv[2], sys.argv[3])
        register(sys.argv[2], sys.argv[3])
