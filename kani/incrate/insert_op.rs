use super::*;
// C14 U9 (bounded stand-in, native; NOT a proof): the INSERT operator publishes its rows exactly once and only when a
// partition finalizes ("each inserted row is visible exactly once ... an INSERT ... SELECT reads the table as it was when
// the statement started, and a statement that fails changes nothing").  Real PhysicalInsert + DataTable (chunk capacity
// 16, 16 chunks per segment -- the shape CREATE TABLE makes) driven through the poll interface:
//   1 or 2 partitions, every batch size in {1, 3, 16}, 1..=4 batches per partition (<= 64 rows per partition, i.e. below
//   the segment size): after every poll_execute a fresh scan sees exactly the rows of the partitions finalized so far;
//   after the last finalize every row once; the reported count is the number of rows pushed.
// Second part (recorded finding): a partition that appends more than one segment (16 chunks of 16 rows) publishes the
// full segment while the statement is still running.
use crate::arrays::array::Array;
use crate::arrays::field::Field;
use crate::arrays::scalar::BorrowedScalarValue;
use crate::catalog::entry::{CatalogEntryInner, TableEntry};
use crate::functions::table::builtin::memory_scan::FUNCTION_SET_MEMORY_SCAN;
use crate::storage::projections::Projections;
use crate::testutil::operator::OperatorWrapper;
use crate::util::iter::TryFromExactSizeIterator;

//@fn execution/operators/catalog/insert.rs PhysicalInsert::{poll_execute, poll_finalize_execute}
//@fn storage/datatable.rs DataTable::{append_batch, flush, scan} (as used by INSERT)

fn visible(table: &DataTable) -> Vec<i32> {
    let projections = Projections::new([0]);
    let mut state = table.init_scan_state();
    let mut out = Batch::new([DataType::int32()], 16).unwrap();
    let mut rows = Vec::new();
    loop {
        let count = table.scan(&projections, &mut state, &mut out).unwrap();
        if count == 0 {
            rows.sort();
            return rows;
        }
        for r in 0..count {
            match out.arrays[0].get_value(r).unwrap() {
                BorrowedScalarValue::Int32(v) => rows.push(v),
                other => panic!("unexpected value {other:?}"),
            }
        }
    }
}

fn new_insert() -> (Arc<DataTable>, OperatorWrapper<PhysicalInsert>) {
    let storage = Arc::new(StorageManager::empty());
    let table = Arc::new(DataTable::new([DataType::int32()], 16, 16));
    let storage_id = storage.insert_table(table.clone()).unwrap();
    let entry = Arc::new(CatalogEntry {
        name: "t".to_string(),
        entry: CatalogEntryInner::Table(TableEntry { columns: vec![Field::new("a", DataType::int32(), true)], function: &FUNCTION_SET_MEMORY_SCAN, storage_id }),
        child: None,
    });
    (table, OperatorWrapper::new(PhysicalInsert { storage, entry }))
}

#[test]
fn c14_insert__rows_visible_exactly_once_and_only_after_finalize__nat() {
    let mut cases = 0usize;
    for partitions in 1..=2usize {
        for batch in [1usize, 3, 16] {
            for nbatches in 1..=4usize {
                let (table, wrapper) = new_insert();
                let props = ExecutionProperties { batch_size: 16 };
                let op_state = wrapper.operator.create_operator_state(props).unwrap();
                let mut states = wrapper.operator.create_partition_execute_states(&op_state, props, partitions).unwrap();
                let mut output = Batch::new([DataType::int64()], 16).unwrap();
                let mut published: Vec<i32> = Vec::new();
                let mut next = 0i32;
                for p in 0..partitions {
                    let mut mine: Vec<i32> = Vec::new();
                    for _ in 0..nbatches {
                        let vals: Vec<i32> = (0..batch as i32).map(|i| next + i).collect();
                        next += batch as i32;
                        mine.extend(vals.iter().copied());
                        let mut input = Batch::from_arrays([Array::try_from_iter(vals).unwrap()]).unwrap();
                        let poll = wrapper.poll_execute(&op_state, &mut states[p], &mut input, &mut output).unwrap();
                        assert!(poll == PollExecute::NeedsMore);
                        let seen = visible(&table);
                        assert!(
                            seen == published,
                            "INSERT ({partitions} partitions, {nbatches} batches of {batch} rows): while partition {p} is still inserting a scan sees {seen:?}, only the rows of finalized partitions {published:?} may be visible"
                        );
                    }
                    assert!(wrapper.poll_finalize_execute(&op_state, &mut states[p]).unwrap() == PollFinalize::NeedsDrain);
                    published.extend(mine.iter().copied());
                    published.sort();
                    let seen = visible(&table);
                    assert!(seen == published, "INSERT: after partition {p} finalized a scan sees {seen:?}, expected every inserted row exactly once: {published:?}");
                    let mut empty = Batch::new([DataType::int32()], 16).unwrap();
                    assert!(wrapper.poll_execute(&op_state, &mut states[p], &mut empty, &mut output).unwrap() == PollExecute::Exhausted);
                    match output.arrays[0].get_value(0).unwrap() {
                        BorrowedScalarValue::Int64(c) => assert!(c as usize == mine.len(), "INSERT reports {c} rows for a partition that inserted {}", mine.len()),
                        other => panic!("unexpected count {other:?}"),
                    }
                    cases += 1;
                }
            }
        }
    }
    assert!(cases == 12 + 24);
}

#[test]
fn c14_insert__large_insert_publishes_nothing_before_finalize__nat() {
    // 17 chunks of 16 rows: more than one segment
    let (table, wrapper) = new_insert();
    let props = ExecutionProperties { batch_size: 16 };
    let op_state = wrapper.operator.create_operator_state(props).unwrap();
    let mut states = wrapper.operator.create_partition_execute_states(&op_state, props, 1).unwrap();
    let mut output = Batch::new([DataType::int64()], 16).unwrap();
    let mut early = 0usize;
    for b in 0..17i32 {
        let vals: Vec<i32> = (0..16).map(|i| b * 16 + i).collect();
        let mut input = Batch::from_arrays([Array::try_from_iter(vals).unwrap()]).unwrap();
        assert!(wrapper.poll_execute(&op_state, &mut states[0], &mut input, &mut output).unwrap() == PollExecute::NeedsMore);
        early = early.max(visible(&table).len());
    }
    assert!(wrapper.poll_finalize_execute(&op_state, &mut states[0]).unwrap() == PollFinalize::NeedsDrain);
    assert!(visible(&table).len() == 17 * 16, "rows lost or duplicated by a multi-segment INSERT");
    if early > 0 {
        panic!("KNOWN-SHAPE INSERT publishes full segments before the statement ends: {early} of 272 rows were visible to a scan while the INSERT was still running (segment = 16 chunks x 16 rows)");
    }
}
include!("/verif/build/kani-gen/insert_op.playback.rs");
