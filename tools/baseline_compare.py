#!/usr/bin/env python3
"""Compare a nextest junit.xml with the stable_pass list of /root/.vp/BASELINE.json.
usage: baseline_compare.py [/repo/target/nextest/pb/junit.xml]"""
import json, sys
import xml.etree.ElementTree as ET
p = sys.argv[1] if len(sys.argv) > 1 else '/repo/target/nextest/pb/junit.xml'
base = json.load(open('/root/.vp/BASELINE.json'))
stable = set(base['stable_pass'])
passed = set(); failed = set()
for ts in ET.parse(p).getroot().iter('testsuite'):
    for tc in ts.iter('testcase'):
        name = '%s::%s' % (ts.get('name'), tc.get('name'))
        bad = any(ch.tag in ('failure', 'error') for ch in tc)
        (failed if bad else passed).add(name)
missing = sorted(stable - passed)
print('stable_pass=%d passed_now=%d failed_now=%d stable_not_passing=%d' % (len(stable), len(passed), len(failed), len(missing)))
for m in missing[:40]:
    print('  NOT PASSING:', m, '(failed)' if m in failed else '(not run)')
sys.exit(1 if missing else 0)
