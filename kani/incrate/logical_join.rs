// C06 U3: JoinType::empty_output_on_empty_build (left = build side) may be true only for join types whose SQL result is
// empty when the left input is empty.
use super::*;

//@fn logical/logical_join.rs JoinType::empty_output_on_empty_build

#[kani::proof]
fn c06_join_type__empty_on_empty_build_sound() {
    let k: u8 = kani::any();
    kani::assume(k < 7);
    let (jt, left_empty_means_empty) = match k {
        0 => (JoinType::Inner, true),      // no pairs
        1 => (JoinType::Left, true),       // only left rows are preserved
        2 => (JoinType::LeftSemi, true),   // emits left rows
        3 => (JoinType::LeftAnti, true),   // emits left rows
        4 => (JoinType::Right, false),     // every right row is preserved, NULL padded
        5 => (JoinType::Full, false),      // every right row is preserved
        _ => (JoinType::LeftMark { table_ref: TableRef { table_idx: kani::any() } }, true), // emits left rows + mark
    };
    kani::cover!(k == 4);
    if jt.empty_output_on_empty_build() {
        assert!(left_empty_means_empty, "join short-circuits to an empty result although right rows must be preserved");
    }
    // the four types for which the shortcut is taken today
    if k < 4 {
        assert!(jt.empty_output_on_empty_build());
    }
}

include!("/verif/build/kani-gen/logical_join.playback.rs");
