// C07 U1: COUNT state algebra.  View = number of non-NULL rows; empty input => 0 (not NULL).
use super::*;
use crate::verif_kani::with_put1;

//@fn functions/aggregate/builtin/count.rs impl AggregateState for CountNonNullState :: {update, merge, finalize}

fn forget_ok(r: Result<()>) -> bool {
    let ok = r.is_ok();
    std::mem::forget(r);
    ok
}

#[kani::proof]
fn c07_count_state__def() {
    let mut a = CountNonNullState { count: kani::any() };
    let mut b = CountNonNullState { count: kani::any() };
    // stated bound: fewer than 2^62 rows per state
    kani::assume(a.count >= 0 && a.count < (1 << 62) && b.count >= 0 && b.count < (1 << 62));
    let (ca, cb) = (a.count, b.count);
    kani::cover!(true);
    assert!(forget_ok(a.update(&(), &())));
    assert!(a.count == ca + 1);
    assert!(forget_ok(a.merge(&(), &mut b)));
    assert!(a.count == ca + 1 + cb);
    let mut ok = false;
    let (out, valid) = with_put1!(i64, -1, |buf| ok = forget_ok(a.finalize(&(), buf)));
    assert!(ok && valid && out == ca + 1 + cb);
    let mut d = CountNonNullState::default();
    let (out, valid) = with_put1!(i64, -1, |buf| ok = forget_ok(d.finalize(&(), buf)));
    assert!(valid && out == 0, "COUNT over no rows must be 0");
}

include!("/verif/build/kani-gen/agg_count.playback.rs");
