// C13 U6 / C02 (bounded stand-in, native; NOT a proof): building `CAST(CAST(x AS mid) AS to)` with
// `CastExpr::new_using_default_casts` (which may drop the inner cast and cast x directly to `to`) has the semantics of
// the two casts applied one after the other: if the inner cast fails (x is not representable in `mid`) the whole
// expression fails, otherwise the value is x -- never a value `mid` could not hold.
// Expression trees and the cast function tables are heap / dyn structures out of reach of CBMC and Verus, so the real
// constructor + ConstFold evaluate every (source, mid, to) triple of the eight integer types on the boundary values of
// the source type (8 x 8 x 8 x <= 7 cases).
use super::*;
use crate::arrays::scalar::{BorrowedScalarValue, ScalarValue};
use crate::optimizer::expr_rewrite::ExpressionRewriteRule;
use crate::optimizer::expr_rewrite::const_fold::ConstFold;

//@fn expr/cast_expr.rs CastExpr::new_using_default_casts (nested-cast flattening)

#[derive(Clone, Copy, Debug, PartialEq)]
enum T {
    I8,
    I16,
    I32,
    I64,
    U8,
    U16,
    U32,
    U64,
}

impl T {
    fn range(self) -> (i128, i128) {
        match self {
            T::I8 => (i8::MIN as i128, i8::MAX as i128),
            T::I16 => (i16::MIN as i128, i16::MAX as i128),
            T::I32 => (i32::MIN as i128, i32::MAX as i128),
            T::I64 => (i64::MIN as i128, i64::MAX as i128),
            T::U8 => (0, u8::MAX as i128),
            T::U16 => (0, u16::MAX as i128),
            T::U32 => (0, u32::MAX as i128),
            T::U64 => (0, u64::MAX as i128),
        }
    }
    fn datatype(self) -> DataType {
        match self {
            T::I8 => DataType::int8(),
            T::I16 => DataType::int16(),
            T::I32 => DataType::int32(),
            T::I64 => DataType::int64(),
            T::U8 => DataType::uint8(),
            T::U16 => DataType::uint16(),
            T::U32 => DataType::uint32(),
            T::U64 => DataType::uint64(),
        }
    }
    fn scalar(self, v: i128) -> ScalarValue {
        match self {
            T::I8 => ScalarValue::Int8(v as i8),
            T::I16 => ScalarValue::Int16(v as i16),
            T::I32 => ScalarValue::Int32(v as i32),
            T::I64 => ScalarValue::Int64(v as i64),
            T::U8 => ScalarValue::UInt8(v as u8),
            T::U16 => ScalarValue::UInt16(v as u16),
            T::U32 => ScalarValue::UInt32(v as u32),
            T::U64 => ScalarValue::UInt64(v as u64),
        }
    }
}

fn as_i128(v: &ScalarValue) -> Option<i128> {
    Some(match v {
        BorrowedScalarValue::Int8(v) => *v as i128,
        BorrowedScalarValue::Int16(v) => *v as i128,
        BorrowedScalarValue::Int32(v) => *v as i128,
        BorrowedScalarValue::Int64(v) => *v as i128,
        BorrowedScalarValue::UInt8(v) => *v as i128,
        BorrowedScalarValue::UInt16(v) => *v as i128,
        BorrowedScalarValue::UInt32(v) => *v as i128,
        BorrowedScalarValue::UInt64(v) => *v as i128,
        _ => return None,
    })
}

#[test]
fn c02c13_nested_cast__same_as_two_casts__nat() {
    let all = [T::I8, T::I16, T::I32, T::I64, T::U8, T::U16, T::U32, T::U64];
    let mut cases = 0usize;
    let mut flattened = 0usize;
    for src in all {
        let (lo, hi) = src.range();
        let mut vals = vec![lo, lo + 1, -1, 0, 1, 127, 128, 255, 256, 1000, 70000, hi - 1, hi];
        vals.retain(|v| *v >= lo && *v <= hi);
        vals.sort();
        vals.dedup();
        for mid in all {
            for to in all {
                for &x in &vals {
                    let inner = CastExpr::new_using_default_casts(crate::expr::lit(src.scalar(x)), mid.datatype()).unwrap();
                    let outer = CastExpr::new_using_default_casts(Expression::Cast(inner), to.datatype()).unwrap();
                    if !matches!(outer.expr.as_ref(), Expression::Cast(_)) {
                        flattened += 1;
                    }
                    let got = ConstFold::rewrite(Expression::Cast(outer)).and_then(|e| e.try_into_scalar());
                    let (ml, mh) = mid.range();
                    let (tl, th) = to.range();
                    let want = if x >= ml && x <= mh && x >= tl && x <= th { Some(x) } else { None };
                    match (&got, want) {
                        (Ok(v), Some(w)) => assert!(as_i128(v) == Some(w), "CAST(CAST({x}::{src:?} AS {mid:?}) AS {to:?}) = {v}, expected {w}"),
                        (Err(_), None) => (),
                        (Ok(v), None) => panic!("CAST(CAST({x}::{src:?} AS {mid:?}) AS {to:?}) returns {v} although {x} is not representable in {}", if x < ml || x > mh { format!("{mid:?} (the inner cast must fail)") } else { format!("{to:?}") }),
                        (Err(e), Some(w)) => panic!("CAST(CAST({x}::{src:?} AS {mid:?}) AS {to:?}) fails ({e}) although the value {w} fits both types"),
                    }
                    cases += 1;
                }
            }
        }
    }
    assert!(cases > 3000);
    assert!(flattened > 100, "the constructor flattened only {flattened} nested casts");
}

// C13 (bounded stand-in, native): FLOAT / DOUBLE -> DECIMAL(p, s) chooses the neighbour "half away from zero".  Every
// dyadic value q / 2^(s+3), |q| <= 4000, for s in 0..=3 (these include every tie (2t+1) / 2^(s+1), e.g. -2.5 at scale 0,
// 0.125 at scale 2; the product with 10^s is exact in binary floating point, so the expected value is computed in
// integer arithmetic) is cast through the real bind -> cast kernel path.
#[test]
fn c13_float2dec__rounds_half_away_from_zero__nat() {
    use crate::arrays::datatype::DecimalTypeMeta;
    let mut cases = 0usize;
    let mut ties = 0usize;
    for s in 0..=3u32 {
        let den: i128 = 1 << (s + 3);
        for q in -4000i128..=4000 {
            // exact value of v * 10^s = q * 10^s / den
            let num = q * 10i128.pow(s);
            let (quo, rem) = (num.abs() / den, num.abs() % den);
            let mag = if 2 * rem >= den { quo + 1 } else { quo };
            if 2 * rem == den {
                ties += 1;
            }
            let want = if num < 0 { -mag } else { mag };
            let v64 = q as f64 / den as f64;
            for (src, name) in [(ScalarValue::Float64(v64), "DOUBLE"), (ScalarValue::Float32(v64 as f32), "REAL")] {
                let cast = CastExpr::new_using_default_casts(crate::expr::lit(src), DataType::decimal64(DecimalTypeMeta::new(12, s as i8))).unwrap();
                let got = ConstFold::rewrite(Expression::Cast(cast)).and_then(|e| e.try_into_scalar());
                match got {
                    Ok(BorrowedScalarValue::Decimal64(d)) => assert!(
                        d.value as i128 == want && d.scale == s as i8,
                        "CAST({v64}::{name} AS DECIMAL(12,{s})) has unscaled value {}, round-half-away-from-zero gives {want}",
                        d.value
                    ),
                    other => panic!("CAST({v64}::{name} AS DECIMAL(12,{s})) did not produce a decimal: {other:?}"),
                }
                cases += 1;
            }
        }
    }
    assert!(cases == 4 * 8001 * 2 && ties > 3000);
}

// C02 / C13 (bounded stand-in, native; NOT a proof): nested casts through floating point types.  Flattening
// CAST(CAST(x AS mid) AS to) into CAST(x AS to) is only an identity when the inner cast loses nothing; REAL in the middle
// rounds to 24 bits of mantissa.  For sources DOUBLE / REAL / BIGINT / INT, middle and target types REAL / DOUBLE / BIGINT
// / INT and 20 values (not exact in f32: 0.1, 16777217, 1e-40, 123456789.125; exact: 0.5, 2^24; boundaries and
// fractions for the integer targets) the value produced by the constructor's (possibly flattened) expression equals
// the value of the two casts applied one after the other with Rust's `as` conversions as the reference for float
// -> float / int -> float, and "truncate toward zero or fail when out of range" for float -> int.
#[test]
fn c02c13_nested_cast_float__same_as_two_casts__nat() {
    #[derive(Clone, Copy, Debug, PartialEq)]
    enum F {
        F32,
        F64,
        I32,
        I64,
    }
    #[derive(Clone, Copy, Debug, PartialEq)]
    enum V {
        F32(f32),
        F64(f64),
        I32(i32),
        I64(i64),
    }
    fn dt(t: F) -> DataType {
        match t {
            F::F32 => DataType::float32(),
            F::F64 => DataType::float64(),
            F::I32 => DataType::int32(),
            F::I64 => DataType::int64(),
        }
    }
    // reference single cast: None = must fail
    fn cast1(v: V, to: F) -> Option<V> {
        let as_f64 = match v {
            V::F32(x) => x as f64,
            V::F64(x) => x,
            V::I32(x) => x as f64,
            V::I64(x) => x as f64,
        };
        Some(match (v, to) {
            (V::F32(x), F::F32) => V::F32(x),
            (V::F64(x), F::F32) => V::F32(x as f32),
            (V::I32(x), F::F32) => V::F32(x as f32),
            (V::I64(x), F::F32) => V::F32(x as f32),
            (_, F::F64) => V::F64(as_f64),
            (V::I32(x), F::I32) => V::I32(x),
            (V::I64(x), F::I32) => V::I32(i32::try_from(x).ok()?),
            (V::I32(x), F::I64) => V::I64(x as i64),
            (V::I64(x), F::I64) => V::I64(x),
            (V::F32(_) | V::F64(_), F::I32) => {
                let t = as_f64.trunc();
                if !t.is_finite() || t < i32::MIN as f64 || t > i32::MAX as f64 {
                    return None;
                }
                V::I32(t as i32)
            }
            (V::F32(_) | V::F64(_), F::I64) => {
                let t = as_f64.trunc();
                if !t.is_finite() || t < -9223372036854775808.0 || t >= 9223372036854775808.0 {
                    return None;
                }
                V::I64(t as i64)
            }
        })
    }
    fn lit(v: V) -> Expression {
        match v {
            V::F32(x) => crate::expr::lit(ScalarValue::Float32(x)).into(),
            V::F64(x) => crate::expr::lit(ScalarValue::Float64(x)).into(),
            V::I32(x) => crate::expr::lit(ScalarValue::Int32(x)).into(),
            V::I64(x) => crate::expr::lit(ScalarValue::Int64(x)).into(),
        }
    }
    fn out(v: &ScalarValue) -> Option<V> {
        Some(match v {
            BorrowedScalarValue::Float32(x) => V::F32(*x),
            BorrowedScalarValue::Float64(x) => V::F64(*x),
            BorrowedScalarValue::Int32(x) => V::I32(*x),
            BorrowedScalarValue::Int64(x) => V::I64(*x),
            _ => return None,
        })
    }
    let f64s = [0.1f64, 16777217.0, 1e-40, 123456789.125, 0.5, 16777216.0, -0.1, 2.5, -2.5, 3.999, 2147483647.5, 2147483648.0, -2147483648.9, 9.3e18, 1e300, -1e300, 0.0, 1.0, 4294967296.5, 33554433.0];
    let mut sources: Vec<V> = Vec::new();
    for x in f64s {
        sources.push(V::F64(x));
        sources.push(V::F32(x as f32));
    }
    for x in [0i64, 1, -1, 16777217, 33554433, 2147483647, 2147483648, -2147483649, 9007199254740993, i64::MAX, i64::MIN] {
        sources.push(V::I64(x));
        if let Ok(y) = i32::try_from(x) {
            sources.push(V::I32(y));
        }
    }
    let types = [F::F32, F::F64, F::I32, F::I64];
    let (mut cases, mut flattened) = (0usize, 0usize);
    for &src in &sources {
        let finite = match src {
            V::F32(x) => x.is_finite(),
            V::F64(x) => x.is_finite(),
            _ => true,
        };
        if !finite {
            continue; // 1e300 as f32 is inf: not a source we want
        }
        for mid in types {
            for to in types {
                let inner = CastExpr::new_using_default_casts(lit(src), dt(mid)).unwrap();
                let outer = CastExpr::new_using_default_casts(Expression::Cast(inner), dt(to)).unwrap();
                if !matches!(outer.expr.as_ref(), Expression::Cast(_)) {
                    flattened += 1;
                }
                let got = ConstFold::rewrite(Expression::Cast(outer)).and_then(|e| e.try_into_scalar());
                let want = cast1(src, mid).and_then(|m| cast1(m, to));
                // float -> float overflow to infinity: `as` gives inf, the engine may give inf or fail; not decided here
                let inf_involved = matches!(cast1(src, mid), Some(V::F32(x)) if x.is_infinite()) || matches!(want, Some(V::F32(x)) if x.is_infinite());
                if inf_involved {
                    continue;
                }
                match (&got, want) {
                    (Ok(v), Some(w)) => assert!(out(v) == Some(w), "CAST(CAST({src:?} AS {mid:?}) AS {to:?}) = {v}, the two casts one after the other give {w:?}"),
                    (Err(_), None) => (),
                    (Ok(v), None) => panic!("CAST(CAST({src:?} AS {mid:?}) AS {to:?}) returns {v} although one of the two casts must fail"),
                    (Err(e), Some(w)) => panic!("CAST(CAST({src:?} AS {mid:?}) AS {to:?}) fails ({}) although the two casts give {w:?}", e.to_string().lines().next().unwrap_or("")),
                }
                cases += 1;
            }
        }
    }
    assert!(cases > 700, "{cases}");
    assert!(flattened > 50, "the constructor flattened only {flattened} nested casts");
}

include!("/verif/build/kani-gen/cast_expr.playback.rs");
