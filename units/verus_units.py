"""Verus units: templates in /verif/verus/*.rs.in (filled in later)."""
def discover(prop, tier, only=None):
    return []

def run_units(units, tier):
    return []
