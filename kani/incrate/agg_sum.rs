// C07 U1 / C12: SUM state algebra.  View of a state = (mathematical sum, valid).  update/merge are the monoid
// operation on views, finalize reads the view; overflow of the result type is an error, never a value.
use super::*;
use crate::verif_kani::{stub_backtrace_capture, stub_dberror_new, stub_format, with_put1};

//@fn functions/aggregate/builtin/sum.rs impl AggregateState for SumStateCheckedAdd<S, I> :: {update, merge, finalize}

type St64 = SumStateCheckedAdd<i64, i64>;
type St128 = SumStateCheckedAdd<i128, i64>;

fn any_state64() -> St64 {
    SumStateCheckedAdd { sum: kani::any(), valid: kani::any(), _input: PhantomData }
}

fn forget_ok(r: Result<()>) -> bool {
    let ok = r.is_ok();
    std::mem::forget(r);
    ok
}

#[kani::proof]
#[kani::unwind(4)]
#[kani::stub(std::fmt::format, stub_format)]
#[kani::stub(std::backtrace::Backtrace::capture, stub_backtrace_capture)]
#[kani::stub(glaredb_error::DbError::new, stub_dberror_new)]
fn c07c12_sum_i64_update__exact() {
    let mut s = any_state64();
    let (sum0, x): (i64, i64) = (s.sum, kani::any());
    kani::assume(sum0.checked_add(x).is_some());
    kani::cover!(true);
    let ok = forget_ok(s.update(&(), &x));
    assert!(ok, "update failed although the sum is representable");
    assert!(s.sum == sum0 + x && s.valid, "update is not view + x");
}

#[kani::proof]
#[kani::unwind(4)]
#[kani::stub(std::fmt::format, stub_format)]
#[kani::stub(std::backtrace::Backtrace::capture, stub_backtrace_capture)]
#[kani::stub(glaredb_error::DbError::new, stub_dberror_new)]
fn c07c12_sum_i64_update__error_on_overflow() {
    let mut s = any_state64();
    let (sum0, x): (i64, i64) = (s.sum, kani::any());
    kani::assume(sum0.checked_add(x).is_none());
    kani::cover!(true);
    let ok = forget_ok(s.update(&(), &x));
    assert!(!ok, "SUM overflow did not raise an error (a wrong total would be returned)");
}

#[kani::proof]
#[kani::unwind(4)]
#[kani::stub(std::fmt::format, stub_format)]
#[kani::stub(std::backtrace::Backtrace::capture, stub_backtrace_capture)]
#[kani::stub(glaredb_error::DbError::new, stub_dberror_new)]
fn c07c12_sum_i64_merge__exact() {
    let mut a = any_state64();
    let mut b = any_state64();
    let (sa, va, sb, vb) = (a.sum, a.valid, b.sum, b.valid);
    kani::assume(sa.checked_add(sb).is_some());
    kani::cover!(va && !vb);
    let ok = forget_ok(a.merge(&(), &mut b));
    assert!(ok, "merge failed although the sum is representable");
    assert!(a.sum == sa + sb && a.valid == (va || vb), "merge is not view + view");
}

#[kani::proof]
#[kani::unwind(4)]
#[kani::stub(std::fmt::format, stub_format)]
#[kani::stub(std::backtrace::Backtrace::capture, stub_backtrace_capture)]
#[kani::stub(glaredb_error::DbError::new, stub_dberror_new)]
fn c07c12_sum_i64_merge__error_on_overflow() {
    let mut a = any_state64();
    let mut b = any_state64();
    kani::assume(a.sum.checked_add(b.sum).is_none());
    kani::cover!(true);
    let ok = forget_ok(a.merge(&(), &mut b));
    assert!(!ok, "SUM overflow while combining partial sums did not raise an error");
}

#[kani::proof]
#[kani::unwind(4)]
fn c07c12_sum_i64_finalize__def() {
    let mut s = any_state64();
    let (sum0, v0) = (s.sum, s.valid);
    kani::cover!(!v0);
    let mut ok = false;
    let (out, valid) = with_put1!(i64, 0, |buf| ok = forget_ok(s.finalize(&(), buf)));
    assert!(ok);
    // empty input (no update ever) => NULL; otherwise the sum
    assert!(valid == v0 && (!v0 || out == sum0));
    // the default state is the unit of the monoid
    let d = St64::default();
    assert!(d.sum == 0 && !d.valid);
}

// Partition / order independence (C07): two partial states merged in either order, or one state fed all rows in
// another order, finalize to the same value -- shown on the real functions for 3 rows split 2+1 (the general case
// follows from update == view + x, merge == view + view, and (Z, +) being a commutative monoid).
#[kani::proof]
#[kani::unwind(4)]
#[kani::stub(std::fmt::format, stub_format)]
#[kani::stub(std::backtrace::Backtrace::capture, stub_backtrace_capture)]
#[kani::stub(glaredb_error::DbError::new, stub_dberror_new)]
fn c07_sum_i64_partition_order__independent() {
    let (x, y, z): (i32, i32, i32) = (kani::any(), kani::any(), kani::any());
    let (x, y, z) = (x as i64, y as i64, z as i64);
    kani::cover!(true);
    let mut p1 = St64::default();
    let mut p2 = St64::default();
    forget_ok(p1.update(&(), &x));
    forget_ok(p1.update(&(), &y));
    forget_ok(p2.update(&(), &z));
    let mut q1 = St64::default();
    let mut q2 = St64::default();
    forget_ok(q2.update(&(), &z));
    forget_ok(q2.update(&(), &x));
    forget_ok(q1.update(&(), &y));
    forget_ok(p1.merge(&(), &mut p2));
    forget_ok(q1.merge(&(), &mut q2));
    let mut single = St64::default();
    forget_ok(single.update(&(), &y));
    forget_ok(single.update(&(), &z));
    forget_ok(single.update(&(), &x));
    assert!(p1.sum == q1.sum && p1.sum == single.sum && p1.sum == x + y + z);
    assert!(p1.valid && q1.valid && single.valid);
}

// decimal SUM accumulates Decimal64 inputs in i128 (cannot overflow within 2^63 rows: stated bound)
#[kani::proof]
#[kani::unwind(4)]
#[kani::stub(std::fmt::format, stub_format)]
#[kani::stub(std::backtrace::Backtrace::capture, stub_backtrace_capture)]
#[kani::stub(glaredb_error::DbError::new, stub_dberror_new)]
fn c07c12_sum_dec64_update__exact() {
    let mut s: St128 = SumStateCheckedAdd { sum: kani::any(), valid: kani::any(), _input: PhantomData };
    let (sum0, x): (i128, i64) = (s.sum, kani::any());
    kani::assume(sum0.checked_add(x as i128).is_some());
    kani::cover!(true);
    let ok = forget_ok(s.update(&(), &x));
    assert!(ok && s.sum == sum0 + x as i128 && s.valid);
}

include!("/verif/build/kani-gen/agg_sum.playback.rs");
