// C02 U4 / C08 U6 (bounded stand-in, native; NOT a proof): a sort block built WITH a limit hint k holds exactly the first
// k rows of the block sorted WITHOUT a hint ("a sort that knows the limit returns the same rows as the full sort
// followed by the slice"), and the block sorted without a hint is ordered by the declared keys.
// `SortedBlock::sort_from_blocks` works on raw row pointers (unsafe, buffer manager): out of reach of Verus and CBMC, so
// the real code is executed on every input of a stated finite family:
//   layout A: ORDER BY utf8, int32   rows <= 4, utf8 in {"a","b","c"}, int32 in {0,1,2}, every hint 1..rows
//   layout B: ORDER BY utf8          rows <= 4, utf8 in {"a","prefixprefix_a","prefixprefix_b","prefixprefix_","q"}
//                                    (12-byte prefix ties resolved on the heap), every hint 1..rows
//   layout C: ORDER BY utf8 DESC, int32 DESC  rows <= 3, same domains as A
//   layout D: ORDER BY binary         rows <= 4, values sharing their first 12 bytes (incl. a trailing NUL byte)
use super::*;
use crate::arrays::array::Array;
use crate::arrays::datatype::DataType;
use crate::arrays::row::block_scan::BlockScanState;
use crate::arrays::sort::sort_layout::SortColumn;
use crate::util::iter::TryFromExactSizeIterator;

//@fn arrays/sort/sorted_block.rs SortedBlock::sort_from_blocks (+ fill_ties, sort_tied_keys_in_place, sort_tied_heap_keys_in_place)
//@fn arrays/sort/partial_sort.rs PartialSortedRowCollection::{append_unsorted_keys_and_data, sort_unsorted}

/// Sort `rows` as one block with the given hint; returns the row ids in block order.
fn sort_ids(key_layout: &SortLayout, strs: &[&str], ints: Option<&[i32]>, hint: Option<usize>) -> Vec<i32> {
    let n = strs.len();
    let data_layout = RowLayout::try_new([DataType::int32()]).unwrap();
    let mut collection = PartialSortedRowCollection::new(key_layout.clone(), data_layout, 16);
    let is_binary = key_layout.columns[0].datatype == DataType::binary();
    let mut keys = if is_binary {
        let mut a = Array::new(&DefaultBufferManager, DataType::binary(), n.max(1)).unwrap();
        for (i, s) in strs.iter().enumerate() {
            a.set_value(i, &crate::arrays::scalar::BorrowedScalarValue::Binary(std::borrow::Cow::Borrowed(s.as_bytes()))).unwrap();
        }
        vec![a]
    } else {
        vec![Array::try_from_iter(strs.iter().copied()).unwrap()]
    };
    if let Some(ints) = ints {
        keys.push(Array::try_from_iter(ints.iter().copied()).unwrap());
    }
    let ids = [Array::try_from_iter((0..n as i32).collect::<Vec<_>>()).unwrap()];
    let mut state = collection.init_append_state();
    collection.append_unsorted_keys_and_data(&mut state, &keys, &ids, n).unwrap();
    collection.sort_unsorted(hint).unwrap();
    assert!(collection.sorted.len() == 1);
    let count = collection.sorted_row_count();
    let mut read_state = BlockScanState::empty();
    unsafe {
        collection.sorted[0].prepare_data_read(&mut read_state, &collection.data_layout, 0..count).unwrap();
    }
    let mut out = [Array::new(&DefaultBufferManager, DataType::int32(), count.max(1)).unwrap()];
    unsafe {
        collection.data_layout.read_arrays(read_state.row_pointers_iter(), out.iter_mut().enumerate(), 0).unwrap();
    }
    (0..count)
        .map(|r| match out[0].get_value(r).unwrap() {
            crate::arrays::scalar::BorrowedScalarValue::Int32(v) => v,
            _ => panic!("unexpected value"),
        })
        .collect()
}

fn check_family(key_layout: &SortLayout, sdom: &[&'static str], idom: Option<&[i32]>, max_rows: usize, desc: bool) -> usize {
    let per_row = sdom.len() * idom.map(|d| d.len()).unwrap_or(1);
    let mut cases = 0usize;
    for n in 1..=max_rows {
        let total = per_row.pow(n as u32);
        for code in 0..total {
            let mut c = code;
            let mut strs: Vec<&str> = Vec::new();
            let mut ints: Vec<i32> = Vec::new();
            for _ in 0..n {
                let v = c % per_row;
                c /= per_row;
                strs.push(sdom[v % sdom.len()]);
                if let Some(d) = idom {
                    ints.push(d[v / sdom.len()]);
                }
            }
            let key = |id: i32| (strs[id as usize], if idom.is_some() { ints[id as usize] } else { 0 });
            // specification: the rows ordered by the declared keys
            let mut spec: Vec<(&str, i32)> = (0..n as i32).map(key).collect();
            spec.sort();
            if desc {
                spec.reverse();
            }
            let full: Vec<(&str, i32)> = sort_ids(key_layout, &strs, idom.map(|_| &ints[..]), None).into_iter().map(key).collect();
            assert!(full == spec, "sort block not ordered by its keys: input {strs:?} {ints:?} gives {full:?}, expected {spec:?}");
            for k in 1..=n {
                let got: Vec<(&str, i32)> = sort_ids(key_layout, &strs, idom.map(|_| &ints[..]), Some(k)).into_iter().map(key).collect();
                assert!(
                    got == spec[..k],
                    "sort with limit hint {k} differs from full sort followed by the slice: input {strs:?} {ints:?} gives {got:?}, expected {:?}",
                    &spec[..k]
                );
                cases += 1;
            }
        }
    }
    cases
}

#[test]
fn c02c08_sort_block__limit_hint_is_sort_then_slice__nat() {
    let a = SortLayout::try_new([SortColumn::new_asc_nulls_last(DataType::utf8()), SortColumn::new_asc_nulls_last(DataType::int32())]).unwrap();
    let b = SortLayout::try_new([SortColumn::new_asc_nulls_last(DataType::utf8())]).unwrap();
    let c = SortLayout::try_new([SortColumn { desc: true, nulls_first: true, datatype: DataType::utf8() }, SortColumn { desc: true, nulls_first: true, datatype: DataType::int32() }]).unwrap();
    let mut cases = 0usize;
    cases += check_family(&a, &["a", "b", "c"], Some(&[0, 1, 2]), 4, false);
    cases += check_family(&b, &["a", "prefixprefix_a", "prefixprefix_b", "prefixprefix_", "q"], None, 4, false);
    cases += check_family(&c, &["a", "b", "c"], Some(&[0, 1, 2]), 3, true);
    // layout D: ORDER BY a BINARY key (same prefix / heap machinery as text, selected by the data type of the key)
    let d = SortLayout::try_new([SortColumn::new_asc_nulls_last(DataType::binary())]).unwrap();
    cases += check_family(&d, &["a", "prefixprefix_a", "prefixprefix_b", "prefixprefix", "prefixprefix\0"], None, 4, false);
    assert!(cases > 20000);
}

include!("/verif/build/kani-gen/partial_sort.playback.rs");
