// C04 U3: DelayedPartitionCount -- set once, only to 1..=512; dec_by_one never wraps.
use super::*;
use crate::verif_kani::{stub_backtrace_capture, stub_dberror_new, stub_format};

//@fn execution/operators/util/delayed_count.rs DelayedPartitionCount::{set, current, dec_by_one}

fn any_count() -> DelayedPartitionCount {
    let set: bool = kani::any();
    let v: u16 = kani::any();
    DelayedPartitionCount(if set { Some(v) } else { None })
}

#[kani::proof]
#[kani::unwind(4)]
#[kani::stub(std::fmt::format, stub_format)]
#[kani::stub(std::backtrace::Backtrace::capture, stub_backtrace_capture)]
#[kani::stub(glaredb_error::DbError::new, stub_dberror_new)]
fn c04_delayed_count_set__once_in_range() {
    let mut c = any_count();
    let before = c;
    let n: usize = kani::any();
    kani::cover!(before.0.is_none() && n == 512);
    kani::cover!(before.0.is_some());
    let r = c.set(n);
    let ok = r.is_ok();
    std::mem::forget(r);
    assert!(ok == (before.0.is_none() && n >= 1 && n <= 512), "set must succeed exactly once and only for 1..=512");
    if ok {
        assert!(c.0 == Some(n as u16) && c.0.unwrap() as usize == n, "stored count differs from the value given");
    } else {
        assert!(c == before, "a failed set modified the count");
    }
}

#[kani::proof]
#[kani::unwind(4)]
#[kani::stub(std::fmt::format, stub_format)]
#[kani::stub(std::backtrace::Backtrace::capture, stub_backtrace_capture)]
#[kani::stub(glaredb_error::DbError::new, stub_dberror_new)]
fn c04_delayed_count_dec__no_wrap() {
    let mut c = any_count();
    let before = c;
    kani::cover!(before.0 == Some(1));
    kani::cover!(before.0 == Some(0));
    let r = c.dec_by_one();
    match &r {
        Ok(v) => {
            assert!(before.0.is_some() && before.0.unwrap() > 0, "decrement of an unset or zero count succeeded");
            assert!(*v == before.0.unwrap() as usize - 1 && c.0 == Some(before.0.unwrap() - 1), "dec_by_one must return old - 1");
        }
        Err(_) => {
            assert!(before.0.is_none() || before.0 == Some(0));
            assert!(c == before, "a failed decrement modified the count");
        }
    }
    std::mem::forget(r);
    let cur = before.current();
    match &cur {
        Ok(v) => assert!(before.0 == Some(*v as u16)),
        Err(_) => assert!(before.0.is_none()),
    }
    std::mem::forget(cur);
}

include!("/verif/build/kani-gen/delayed_count.playback.rs");
