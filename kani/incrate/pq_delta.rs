// C10 U7 (bounded stand-in, native): DELTA_BINARY_PACKED value decoder.  Streams are produced by a small reference
// ENCODER written from the format specification (block of 128 values = 4 miniblocks of 32, zigzag ULEB128 header, one
// bit width per miniblock); the real decoder must return the encoded values, and reading in two calls at EVERY split
// point (mid-miniblock, at the miniblock edge, after the first value) must give the same values as a single read.
use super::*;

//@fn column/encoding/delta_binary_packed.rs DeltaBinaryPackedValueDecoder::<i64>::{try_new, read, load_next_block, try_into_cursor}

fn uleb(mut v: u64, out: &mut Vec<u8>) {
    loop {
        let b = (v & 0x7f) as u8;
        v >>= 7;
        if v == 0 {
            out.push(b);
            break;
        }
        out.push(b | 0x80);
    }
}
fn zigzag(v: i64) -> u64 {
    ((v << 1) ^ (v >> 63)) as u64
}

/// reference encoder (one or two blocks of 128 values, 4 miniblocks each)
fn encode(values: &[i64]) -> Vec<u8> {
    let mut out = Vec::new();
    uleb(128, &mut out);
    uleb(4, &mut out);
    uleb(values.len() as u64, &mut out);
    uleb(zigzag(values.first().copied().unwrap_or(0)), &mut out);
    let deltas: Vec<i64> = values.windows(2).map(|w| w[1].wrapping_sub(w[0])).collect();
    for block in deltas.chunks(128) {
        let min_delta = *block.iter().min().unwrap();
        uleb(zigzag(min_delta), &mut out);
        let mut widths = [0u8; 4];
        let adj: Vec<u64> = block.iter().map(|d| d.wrapping_sub(min_delta) as u64).collect();
        for (mi, mb) in adj.chunks(32).enumerate() {
            let max = mb.iter().copied().max().unwrap_or(0);
            widths[mi] = (64 - max.leading_zeros()) as u8;
        }
        out.extend_from_slice(&widths);
        for (mi, mb) in adj.chunks(32).enumerate() {
            let w = widths[mi] as u32;
            if w == 0 {
                continue;
            }
            // pad the miniblock to 32 values
            let mut bits: Vec<bool> = Vec::new();
            for k in 0..32 {
                let v = mb.get(k).copied().unwrap_or(0);
                for b in 0..w {
                    bits.push((v >> b) & 1 == 1);
                }
            }
            for byte in bits.chunks(8) {
                let mut x = 0u8;
                for (i, &bit) in byte.iter().enumerate() {
                    if bit {
                        x |= 1 << i;
                    }
                }
                out.push(x);
            }
        }
    }
    out
}

fn decode_split(stream: &[u8], n: usize, split: usize) -> Vec<i64> {
    let mut dec = DeltaBinaryPackedValueDecoder::<i64>::try_new(ReadCursor::from_slice(stream)).unwrap();
    assert!(dec.total_values() == n);
    let mut out = vec![0i64; n];
    let (a, b) = out.split_at_mut(split);
    dec.read(a).unwrap();
    dec.read(b).unwrap();
    out
}

#[test]
fn c10_delta_binary_packed__values_and_split_reads__nat() {
    // value sequences with different delta patterns (constant, alternating signs, wide, wrapping)
    let mut seqs: Vec<Vec<i64>> = Vec::new();
    for n in [2usize, 3, 31, 32, 33, 34, 65, 129, 140] {
        seqs.push((0..n as i64).collect());
        seqs.push((0..n as i64).map(|i| if i % 2 == 0 { i * 1000 } else { -i * 7 }).collect());
        seqs.push((0..n as i64).map(|i| i.wrapping_mul(0x0123_4567_89ab_cdef)).collect());
        seqs.push(vec![42; n]);
    }
    seqs.push(vec![i64::MAX, i64::MIN, 0, -1, i64::MAX]);
    let mut checked = 0usize;
    for values in &seqs {
        let stream = encode(values);
        let n = values.len();
        for split in 0..=n {
            let got = decode_split(&stream, n, split);
            assert!(&got == values, "{n} values, read as {split} + {}: decoded {:?}... expected {:?}...", n - split, &got[..got.len().min(8)], &values[..values.len().min(8)]);
            checked += 1;
        }
    }
    assert!(checked > 1000);
}

// C19 / C16 (bounded stand-in, native; NOT a proof): damaged DELTA_BINARY_PACKED streams.  The stream header (block size,
// miniblock count, total value count, first value) and the block headers (minimum delta, one bit width per miniblock)
// come from the file.  On every member of the family below `try_new`, `read` (of up to 300 values, in one and in two
// calls) and `try_into_cursor` return Ok or Err: no panic (division by a zero miniblock count, index past the bit-width
// table, arithmetic overflow, the debug assertions of the UNCHECKED cursor methods, i.e. reads past the end of the
// page buffer), no allocation sized by a header field alone, and the calls return.
//   family: 6 valid streams (1, 2, 33, 40, 129, 140 values)  x  { every truncation;  every byte of the first 16 replaced by
//   each of 0x00 0x01 0x20 0x7f 0x80 0xff }  +  hand-written headers: miniblock count 0, block size 0, miniblock count >
//   block size, block size not a multiple of the miniblock count, block size = miniblock count = 2^40 / 2^62, total value
//   count 2^50 with no data, bit widths 65 / 255, a partially read miniblock of width 255 followed by nothing.
fn dlt_run_stream(stream: &[u8], split: bool) -> std::result::Result<(), String> {
    let s = stream.to_vec();
    std::panic::catch_unwind(move || {
        for wide in [true, false] {
            // i64 and i32 instantiations
            if wide {
                dlt_drive::<i64>(&s, split);
            } else {
                dlt_drive::<i32>(&s, split);
            }
        }
    })
    .map_err(|p| p.downcast_ref::<String>().cloned().or_else(|| p.downcast_ref::<&str>().map(|s| s.to_string())).unwrap_or_default())
}

fn dlt_drive<T>(s: &[u8], split: bool)
where
    T: FromPrimitive + Zero + WrappingAdd + Copy + BitPackEncodeable + Debug,
{
    let mut dec = match DeltaBinaryPackedValueDecoder::<T>::try_new(ReadCursor::from_slice(s)) {
        Ok(d) => d,
        Err(_) => return,
    };
    let n = dec.total_values().min(300);
    let mut out = vec![T::zero(); n];
    let ok = if split && n >= 2 {
        let (a, b) = out.split_at_mut(n / 2);
        dec.read(a).is_ok() && dec.read(b).is_ok()
    } else {
        dec.read(&mut out).is_ok()
    };
    if ok {
        let _ = dec.try_into_cursor();
    } else {
        // a caller that ignores nothing still may ask for the cursor of a decoder that stopped early
        let _ = dec.try_into_cursor();
    }
}

#[test]
fn c19_delta_binary_packed__damaged_streams_ok_or_err_never_panic__nat() {
    let mut family: Vec<(String, Vec<u8>)> = Vec::new();
    for n in [1usize, 2, 33, 40, 129, 140] {
        let values: Vec<i64> = (0..n as i64).map(|i| if i % 3 == 0 { i * 1000 } else { -i * 7 }).collect();
        let stream = encode(&values);
        for cut in 0..stream.len() {
            family.push((format!("valid stream of {n} values truncated to {cut} bytes"), stream[..cut].to_vec()));
        }
        for pos in 0..stream.len().min(16) {
            for b in [0x00u8, 0x01, 0x20, 0x7f, 0x80, 0xff] {
                let mut s = stream.clone();
                s[pos] = b;
                family.push((format!("valid stream of {n} values with byte {pos} set to {b:#04x}"), s));
            }
        }
    }
    let hdr = |block: u64, minis: u64, total: u64, rest: &[u8]| {
        let mut out = Vec::new();
        uleb(block, &mut out);
        uleb(minis, &mut out);
        uleb(total, &mut out);
        uleb(zigzag(5), &mut out);
        out.extend_from_slice(rest);
        out
    };
    let body = [2u8, 3, 3, 3, 3, 0xaa, 0xbb, 0xcc, 0xdd, 0xee, 0xff, 0x11, 0x22, 0x33, 0x44, 0x55, 0x66];
    family.push(("miniblock count 0".into(), hdr(128, 0, 10, &body)));
    family.push(("block size 0".into(), hdr(0, 4, 10, &body)));
    family.push(("block size 0, miniblock count 0".into(), hdr(0, 0, 10, &body)));
    family.push(("miniblock count > block size".into(), hdr(4, 128, 10, &body)));
    family.push(("block size not a multiple of the miniblock count".into(), hdr(128, 5, 10, &body)));
    family.push(("block size = miniblock count = 2^40".into(), hdr(1 << 40, 1 << 40, 10, &body)));
    family.push(("block size = miniblock count = 2^62".into(), hdr(1 << 62, 1 << 62, 10, &body)));
    family.push(("block size 2^62, one miniblock".into(), hdr(1 << 62, 1, 10, &body)));
    family.push(("block size 2^63, two miniblocks, 3 values".into(), hdr(1 << 63, 2, 3, &body)));
    family.push(("total value count 2^50, no data".into(), hdr(128, 4, 1 << 50, &[])));
    family.push(("total value count 2^50, header of one block only".into(), hdr(128, 4, 1 << 50, &[2, 1, 1, 1, 1])));
    family.push(("bit width 65".into(), hdr(128, 4, 10, &[2, 65, 65, 65, 65, 1, 2, 3, 4, 5, 6, 7, 8, 9, 10, 11, 12, 13, 14, 15, 16])));
    family.push(("bit width 255".into(), hdr(128, 4, 10, &[2, 255, 255, 255, 255, 1, 2, 3, 4, 5, 6, 7, 8, 9, 10])));
    family.push(("bit width 64, three values, nothing after them".into(), hdr(128, 4, 4, &{
        let mut v = vec![2u8, 64, 64, 64, 64];
        v.extend_from_slice(&[7u8; 24]);
        v
    })));
    family.push(("bit width 8, partially read miniblock with no padding".into(), hdr(128, 4, 4, &[2, 8, 8, 8, 8, 1, 2, 3])));
    assert!(family.len() > 1000);
    for (what, stream) in &family {
        for split in [false, true] {
            if let Err(msg) = dlt_run_stream(stream, split) {
                panic!(
                    "damaged DELTA_BINARY_PACKED stream crashed the decoder ({what}{}): {}",
                    if split { ", read in two calls" } else { "" },
                    msg.lines().next().unwrap_or("")
                );
            }
        }
    }
}

// C19 / C16 (bounded: streams of <= 7 bytes, Kani / CBMC on the real code incl. the unsafe cursor): on ARBITRARY bytes
// `DeltaBinaryPackedValueDecoder::<i32>::try_new` (stream header, first block header, bit-width table) returns Ok or Err:
// no panic, no arithmetic trap (division by a zero miniblock count), no read past the slice (CBMC pointer checks), and
// the bit-width table it allocates is never longer than the input.
fn stub_format_d(_: std::fmt::Arguments<'_>) -> String {
    String::new()
}
fn stub_backtrace_capture_d() -> std::backtrace::Backtrace {
    std::backtrace::Backtrace::disabled()
}
fn stub_dberror_new_d(msg: impl Into<String>) -> glaredb_error::DbError {
    std::mem::forget(msg);
    unsafe { std::mem::transmute::<usize, glaredb_error::DbError>(16usize) }
}
fn stub_with_field_d<K, V>(e: glaredb_error::DbError, key: K, value: V) -> glaredb_error::DbError
where
    K: Into<String>,
    V: glaredb_error::ErrorFieldValue + 'static,
{
    std::mem::forget(key);
    std::mem::forget(value);
    e
}

#[kani::proof]
#[kani::unwind(9)]
#[kani::stub(std::fmt::format, stub_format_d)]
#[kani::stub(std::backtrace::Backtrace::capture, stub_backtrace_capture_d)]
#[kani::stub(glaredb_error::DbError::new, stub_dberror_new_d)]
#[kani::stub(glaredb_error::DbError::with_field, stub_with_field_d)]
fn c19_delta_header__arbitrary_bytes_ok_or_err_no_oob__bnd() {
    const N: usize = 7;
    let buf: [u8; N] = kani::any();
    let len: usize = kani::any();
    kani::assume(len <= N);
    kani::cover!(len == N && buf[1] == 0);
    kani::cover!(len == N && buf[0] == 4 && buf[1] == 2 && buf[2] == 3);
    let r = DeltaBinaryPackedValueDecoder::<i32>::try_new(ReadCursor::from_slice(&buf[..len]));
    match r {
        Ok(dec) => {
            assert!(dec.mini_block_bit_widths.len() <= len, "bit-width table longer than the input");
            assert!(dec.cursor.remaining() <= len, "cursor moved backwards / past the end");
            assert!(dec.mini_block_count >= 1 && dec.values_per_mini_block >= 1, "decoder accepted a header without miniblocks");
            std::mem::forget(dec);
        }
        Err(e) => std::mem::forget(e),
    }
}

include!("/verif/build/kani-gen/pq_delta.playback.rs");
