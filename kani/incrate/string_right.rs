// C20 U3 (bounded stand-in, native): right(s, n): the last n characters (n >= 0) / all but the first |n| characters (n < 0).
use super::*;

//@fn functions/scalar/builtin/string/right.rs right

fn strings3() -> Vec<String> {
    let alphabet = ['a', 'é', '漢', '😀'];
    let mut all = vec![String::new()];
    let mut frontier = vec![String::new()];
    for _ in 0..3 {
        let mut next = Vec::new();
        for w in &frontier {
            for c in alphabet {
                let mut x = w.clone();
                x.push(c);
                next.push(x);
            }
        }
        all.extend(next.iter().cloned());
        frontier = next;
    }
    all
}

#[test]
fn c20_right__char_semantics__nat() {
    let mut counts = vec![i64::MIN, i64::MIN + 1, i64::MAX, i64::MAX - 1];
    counts.extend(-4..=4);
    for s in strings3() {
        let chars: Vec<char> = s.chars().collect();
        for &n in &counts {
            let got = std::panic::catch_unwind(|| right(&s, n).to_string());
            let len = chars.len() as i128;
            let skip = if n >= 0 { (len - n as i128).max(0) } else { (-(n as i128)).min(len) };
            let expected: String = chars[skip as usize..].iter().collect();
            match got {
                Ok(g) => assert!(g == expected, "right({s:?}, {n}) = {g:?}, expected {expected:?}"),
                Err(_) => panic!("right({s:?}, {n}) panicked"),
            }
        }
    }
}

include!("/verif/build/kani-gen/string_right.playback.rs");
