// C13 U2: casts into DECIMAL(p, s): exact scaling or error; the result never has more than p digits.
use super::*;
use crate::arrays::array::physical_type::*;
use crate::arrays::datatype::DecimalTypeMeta;
use crate::functions::cast::behavior::CastFailBehavior;
use crate::verif_kani::{stub_backtrace_capture, stub_dberror_new, stub_format, VpContract, with_put1, POW10};
include!("/verif/build/kani-gen/to_decimal.kernels.rs");

//@fn functions/cast/builtin/to_decimal.rs closure of IntToDecimal<S, D>::cast
//@fn functions/cast/builtin/to_decimal.rs IntToDecimal<S, D>::bind
//@fn functions/cast/builtin/to_decimal.rs closure of DecimalToDecimal<D1, D2>::cast
//@fn functions/cast/builtin/to_decimal.rs DecimalToDecimal<D1, D2>::bind
//@fn functions/cast/builtin/to_decimal.rs FloatToDecimal<S, D>::bind

fn any_behavior() -> CastFailBehavior {
    if kani::any() { CastFailBehavior::Error } else { CastFailBehavior::Null }
}

fn finish(es: CastErrorState) -> bool {
    let r = es.into_result();
    let is_err = r.is_err();
    std::mem::forget(r);
    is_err
}

// ---- int -> decimal ----
// One harness per (source type, decimal type, scale); value and precision are symbolic over their full range.  A symbolic
// scale (or a loop over scales inside one harness) makes the wide multiplication intractable for SAT and SMT alike, so
// the scale is a literal.  Quick tier: boundary and mid scales; thorough tier (`__thr`): every remaining legal scale.
macro_rules! int_to_decimal {
    ($name:ident, $S:ty, $t:ty, $D:ty, $prim:ty, $maxp:expr, $s:expr) => {
        #[kani::proof]
        #[kani::unwind(4)]
        #[kani::stub(crate::arrays::scalar::decimal::DecimalType::validate_precision, crate::verif_kani::VpContract::validate_precision_contract)]
        #[kani::stub(std::fmt::format, stub_format)]
        #[kani::stub(std::backtrace::Backtrace::capture, stub_backtrace_capture)]
        #[kani::stub(glaredb_error::DbError::new, stub_dberror_new)]
        fn $name() {
            // Only the Error behaviour here: with Null the kernel drops the DbError it built, and DbError's drop glue
            // (Box<dyn Error>, Backtrace) is prohibitively expensive for CBMC.  The Null behaviour of CastErrorState is
            // decided by the PrimToPrim harnesses.
            let behavior = CastFailBehavior::Error;
            let s: i8 = $s;
            let v: $t = kani::any();
            let p: u8 = kani::any();
            kani::assume(p >= 1 && p <= $maxp && (s as u8) <= p);
            let state = IntToDecimalState::<$prim> { precision: p, scale: s, scale_amount: POW10[s as usize] as $prim };
            let mut es = behavior.new_state();
            let (out, valid) = with_put1!($prim, 0, |buf| k_int2dec::<$S, $D>(&v, &state, &mut es, buf));
            let is_err = finish(es);
            // mathematical result v * 10^s, if it fits i128 at all
            let m: Option<i128> = i128::try_from(v).ok().and_then(|x| x.checked_mul(POW10[s as usize]));
            let fits = match m { Some(m) => m.unsigned_abs() < POW10[p as usize] as u128, None => false };
            kani::cover!(fits);
            kani::cover!(!fits);
            if fits {
                assert!(valid && !is_err, "representable value rejected");
                assert!(out as i128 == m.unwrap(), "int->decimal must scale exactly by 10^scale");
            } else {
                assert!(!valid, "a value with more than `precision` digits was produced");
                assert!(is_err, "no error reported");
            }
        }
    };
}
int_to_decimal!(c13_int2dec_i64_d64_s0__exact_or_error, PhysicalI64, i64, Decimal64Type, i64, 18, 0);
int_to_decimal!(c13_int2dec_i64_d64_s1__exact_or_error, PhysicalI64, i64, Decimal64Type, i64, 18, 1);
int_to_decimal!(c13_int2dec_i64_d64_s7__exact_or_error, PhysicalI64, i64, Decimal64Type, i64, 18, 7);
int_to_decimal!(c13_int2dec_i64_d64_s18__exact_or_error, PhysicalI64, i64, Decimal64Type, i64, 18, 18);
int_to_decimal!(c13_int2dec_i64_d64_s2__exact_or_error__thr, PhysicalI64, i64, Decimal64Type, i64, 18, 2);
int_to_decimal!(c13_int2dec_i64_d64_s3__exact_or_error__thr, PhysicalI64, i64, Decimal64Type, i64, 18, 3);
int_to_decimal!(c13_int2dec_i64_d64_s4__exact_or_error__thr, PhysicalI64, i64, Decimal64Type, i64, 18, 4);
int_to_decimal!(c13_int2dec_i64_d64_s5__exact_or_error__thr, PhysicalI64, i64, Decimal64Type, i64, 18, 5);
int_to_decimal!(c13_int2dec_i64_d64_s6__exact_or_error__thr, PhysicalI64, i64, Decimal64Type, i64, 18, 6);
int_to_decimal!(c13_int2dec_i64_d64_s8__exact_or_error__thr, PhysicalI64, i64, Decimal64Type, i64, 18, 8);
int_to_decimal!(c13_int2dec_i64_d64_s9__exact_or_error__thr, PhysicalI64, i64, Decimal64Type, i64, 18, 9);
int_to_decimal!(c13_int2dec_i64_d64_s10__exact_or_error__thr, PhysicalI64, i64, Decimal64Type, i64, 18, 10);
int_to_decimal!(c13_int2dec_i64_d64_s11__exact_or_error__thr, PhysicalI64, i64, Decimal64Type, i64, 18, 11);
int_to_decimal!(c13_int2dec_i64_d64_s12__exact_or_error__thr, PhysicalI64, i64, Decimal64Type, i64, 18, 12);
int_to_decimal!(c13_int2dec_i64_d64_s13__exact_or_error__thr, PhysicalI64, i64, Decimal64Type, i64, 18, 13);
int_to_decimal!(c13_int2dec_i64_d64_s14__exact_or_error__thr, PhysicalI64, i64, Decimal64Type, i64, 18, 14);
int_to_decimal!(c13_int2dec_i64_d64_s15__exact_or_error__thr, PhysicalI64, i64, Decimal64Type, i64, 18, 15);
int_to_decimal!(c13_int2dec_i64_d64_s16__exact_or_error__thr, PhysicalI64, i64, Decimal64Type, i64, 18, 16);
int_to_decimal!(c13_int2dec_i64_d64_s17__exact_or_error__thr, PhysicalI64, i64, Decimal64Type, i64, 18, 17);
int_to_decimal!(c13_int2dec_i8_d64_s0__exact_or_error, PhysicalI8, i8, Decimal64Type, i64, 18, 0);
int_to_decimal!(c13_int2dec_i8_d64_s16__exact_or_error, PhysicalI8, i8, Decimal64Type, i64, 18, 16);
int_to_decimal!(c13_int2dec_u64_d64_s0__exact_or_error, PhysicalU64, u64, Decimal64Type, i64, 18, 0);
int_to_decimal!(c13_int2dec_u64_d64_s5__exact_or_error, PhysicalU64, u64, Decimal64Type, i64, 18, 5);
int_to_decimal!(c13_int2dec_i128_d64_s0__exact_or_error, PhysicalI128, i128, Decimal64Type, i64, 18, 0);
int_to_decimal!(c13_int2dec_i128_d64_s9__exact_or_error, PhysicalI128, i128, Decimal64Type, i64, 18, 9);
int_to_decimal!(c13_int2dec_i64_d128_s0__exact_or_error, PhysicalI64, i64, Decimal128Type, i128, 38, 0);
int_to_decimal!(c13_int2dec_i64_d128_s19__exact_or_error__thr, PhysicalI64, i64, Decimal128Type, i128, 38, 19);
int_to_decimal!(c13_int2dec_i64_d128_s38__exact_or_error, PhysicalI64, i64, Decimal128Type, i128, 38, 38);
int_to_decimal!(c13_int2dec_i64_d128_s1__exact_or_error__thr, PhysicalI64, i64, Decimal128Type, i128, 38, 1);
int_to_decimal!(c13_int2dec_i64_d128_s2__exact_or_error__thr, PhysicalI64, i64, Decimal128Type, i128, 38, 2);
int_to_decimal!(c13_int2dec_i64_d128_s3__exact_or_error__thr, PhysicalI64, i64, Decimal128Type, i128, 38, 3);
int_to_decimal!(c13_int2dec_i64_d128_s4__exact_or_error__thr, PhysicalI64, i64, Decimal128Type, i128, 38, 4);
int_to_decimal!(c13_int2dec_i64_d128_s5__exact_or_error__thr, PhysicalI64, i64, Decimal128Type, i128, 38, 5);
int_to_decimal!(c13_int2dec_i64_d128_s6__exact_or_error__thr, PhysicalI64, i64, Decimal128Type, i128, 38, 6);
int_to_decimal!(c13_int2dec_i64_d128_s7__exact_or_error__thr, PhysicalI64, i64, Decimal128Type, i128, 38, 7);
int_to_decimal!(c13_int2dec_i64_d128_s8__exact_or_error__thr, PhysicalI64, i64, Decimal128Type, i128, 38, 8);
int_to_decimal!(c13_int2dec_i64_d128_s9__exact_or_error__thr, PhysicalI64, i64, Decimal128Type, i128, 38, 9);
int_to_decimal!(c13_int2dec_i64_d128_s10__exact_or_error__thr, PhysicalI64, i64, Decimal128Type, i128, 38, 10);
int_to_decimal!(c13_int2dec_i64_d128_s11__exact_or_error__thr, PhysicalI64, i64, Decimal128Type, i128, 38, 11);
int_to_decimal!(c13_int2dec_i64_d128_s12__exact_or_error__thr, PhysicalI64, i64, Decimal128Type, i128, 38, 12);
int_to_decimal!(c13_int2dec_i64_d128_s13__exact_or_error__thr, PhysicalI64, i64, Decimal128Type, i128, 38, 13);
int_to_decimal!(c13_int2dec_i64_d128_s14__exact_or_error__thr, PhysicalI64, i64, Decimal128Type, i128, 38, 14);
int_to_decimal!(c13_int2dec_i64_d128_s15__exact_or_error__thr, PhysicalI64, i64, Decimal128Type, i128, 38, 15);
int_to_decimal!(c13_int2dec_i64_d128_s16__exact_or_error__thr, PhysicalI64, i64, Decimal128Type, i128, 38, 16);
int_to_decimal!(c13_int2dec_i64_d128_s17__exact_or_error__thr, PhysicalI64, i64, Decimal128Type, i128, 38, 17);
int_to_decimal!(c13_int2dec_i64_d128_s18__exact_or_error__thr, PhysicalI64, i64, Decimal128Type, i128, 38, 18);
int_to_decimal!(c13_int2dec_i64_d128_s20__exact_or_error__thr, PhysicalI64, i64, Decimal128Type, i128, 38, 20);
int_to_decimal!(c13_int2dec_i64_d128_s21__exact_or_error__thr, PhysicalI64, i64, Decimal128Type, i128, 38, 21);
int_to_decimal!(c13_int2dec_i64_d128_s22__exact_or_error__thr, PhysicalI64, i64, Decimal128Type, i128, 38, 22);
int_to_decimal!(c13_int2dec_i64_d128_s23__exact_or_error__thr, PhysicalI64, i64, Decimal128Type, i128, 38, 23);
int_to_decimal!(c13_int2dec_i64_d128_s24__exact_or_error__thr, PhysicalI64, i64, Decimal128Type, i128, 38, 24);
int_to_decimal!(c13_int2dec_i64_d128_s25__exact_or_error__thr, PhysicalI64, i64, Decimal128Type, i128, 38, 25);
int_to_decimal!(c13_int2dec_i64_d128_s26__exact_or_error__thr, PhysicalI64, i64, Decimal128Type, i128, 38, 26);
int_to_decimal!(c13_int2dec_i64_d128_s27__exact_or_error__thr, PhysicalI64, i64, Decimal128Type, i128, 38, 27);
int_to_decimal!(c13_int2dec_i64_d128_s28__exact_or_error__thr, PhysicalI64, i64, Decimal128Type, i128, 38, 28);
int_to_decimal!(c13_int2dec_i64_d128_s29__exact_or_error__thr, PhysicalI64, i64, Decimal128Type, i128, 38, 29);
int_to_decimal!(c13_int2dec_i64_d128_s30__exact_or_error__thr, PhysicalI64, i64, Decimal128Type, i128, 38, 30);
int_to_decimal!(c13_int2dec_i64_d128_s31__exact_or_error__thr, PhysicalI64, i64, Decimal128Type, i128, 38, 31);
int_to_decimal!(c13_int2dec_i64_d128_s32__exact_or_error__thr, PhysicalI64, i64, Decimal128Type, i128, 38, 32);
int_to_decimal!(c13_int2dec_i64_d128_s33__exact_or_error__thr, PhysicalI64, i64, Decimal128Type, i128, 38, 33);
int_to_decimal!(c13_int2dec_i64_d128_s34__exact_or_error__thr, PhysicalI64, i64, Decimal128Type, i128, 38, 34);
int_to_decimal!(c13_int2dec_i64_d128_s35__exact_or_error__thr, PhysicalI64, i64, Decimal128Type, i128, 38, 35);
int_to_decimal!(c13_int2dec_i64_d128_s36__exact_or_error__thr, PhysicalI64, i64, Decimal128Type, i128, 38, 36);
int_to_decimal!(c13_int2dec_i64_d128_s37__exact_or_error__thr, PhysicalI64, i64, Decimal128Type, i128, 38, 37);
int_to_decimal!(c13_int2dec_u128_d128_s0__exact_or_error, PhysicalU128, u128, Decimal128Type, i128, 38, 0);
int_to_decimal!(c13_int2dec_u128_d128_s20__exact_or_error__thr, PhysicalU128, u128, Decimal128Type, i128, 38, 20);

// ---- bind: the state is what the kernels above assume, for every legal target type, without trapping ----
macro_rules! bind_state {
    ($name:ident, $F:ty, $srcdt:expr, $mk:ident, $maxp:expr, |$st:ident, $s:ident| $check:expr) => {
        #[kani::proof]
        #[kani::unwind(40)]
        #[kani::stub(std::fmt::format, stub_format)]
        #[kani::stub(std::backtrace::Backtrace::capture, stub_backtrace_capture)]
        #[kani::stub(glaredb_error::DbError::new, stub_dberror_new)]
        fn $name() {
            let mut $s: i8 = 0;
            while $s <= $maxp {
                let p: u8 = kani::any();
                kani::assume(p >= 1 && p <= $maxp && ($s as u8) <= p);
                kani::cover!($s == 12);
                let target = DataType::$mk(DecimalTypeMeta::new(p, $s));
                let r = <$F>::new().bind($srcdt, &target);
                match &r {
                    Ok($st) => assert!($st.precision == p && $check, "bind computed a wrong scale factor"),
                    Err(_) => assert!(false, "bind failed for a legal DECIMAL(p, s)"),
                }
                std::mem::forget(r);
                $s += 1;
            }
        }
    };
}
bind_state!(c13c15_int2dec_bind_d64__state, IntToDecimal::<PhysicalI32, Decimal64Type>, DataType::INT32, decimal64, 18,
    |st, s| st.scale == s && st.scale_amount as i128 == POW10[s as usize]);
bind_state!(c13c15_int2dec_bind_d128__state, IntToDecimal::<PhysicalI64, Decimal128Type>, DataType::INT64, decimal128, 38,
    |st, s| st.scale == s && st.scale_amount == POW10[s as usize]);
// 10^s is exactly representable in f64 for s <= 22
bind_state!(c13c15_float2dec_bind_d128__state, FloatToDecimal::<PhysicalF64, Decimal128Type>, DataType::FLOAT64, decimal128, 38,
    |st, s| (s > 22 || st.mul_scale == POW10[s as usize] as f64));

// ---- decimal -> decimal rescale: state built by the REAL bind ----
// value v of DECIMAL(p1, s1) -> DECIMAL(p2, s2):  v * 10^(s2-s1) exactly when upscaling, v / 10^(s1-s2) rounded half
// away from zero when downscaling; in every success case |out| < 10^p2; otherwise error.
// The kernel depends on the scales only through d = s1 - s2 (s1 = max(d,0), s2 = max(-d,0)); one harness per literal d,
// value and both precisions symbolic.  Quick tier: boundary and small differences; thorough (`__thr`): the rest.
macro_rules! dec_to_dec {
    ($name:ident, $D1:ty, $t1:ty, $mk1:ident, $max1:expr, $D2:ty, $t2:ty, $mk2:ident, $max2:expr, $d:expr, $complete:expr) => {
        #[kani::proof]
        #[kani::unwind(8)]
        #[kani::stub(crate::arrays::scalar::decimal::DecimalType::validate_precision, crate::verif_kani::VpContract::validate_precision_contract)]
        #[kani::stub(std::fmt::format, stub_format)]
        #[kani::stub(std::backtrace::Backtrace::capture, stub_backtrace_capture)]
        #[kani::stub(glaredb_error::DbError::new, stub_dberror_new)]
        fn $name() {
            let behavior = CastFailBehavior::Error;
            let d: i8 = $d;
            let s1: i8 = if d > 0 { d } else { 0 };
            let s2: i8 = if d < 0 { -d } else { 0 };
            let (p1, p2): (u8, u8) = (kani::any(), kani::any());
            kani::assume(p1 >= 1 && p1 <= $max1 && (s1 as u8) <= p1);
            kani::assume(p2 >= 1 && p2 <= $max2 && (s2 as u8) <= p2);
            let v: $t1 = kani::any();
            // the source value is a legal DECIMAL(p1, s1)
            kani::assume((v as i128).unsigned_abs() < POW10[p1 as usize] as u128);
            let src = DataType::$mk1(DecimalTypeMeta::new(p1, s1));
            let target = DataType::$mk2(DecimalTypeMeta::new(p2, s2));
            let st = DecimalToDecimal::<$D1, $D2>::new().bind(&src, &target);
            let state = match st { Ok(s) => s, Err(e) => { std::mem::forget(e); assert!(false, "bind failed"); return; } };
            let mut es = behavior.new_state();
            let (out, valid) = with_put1!($t2, 0, |buf| k_dec2dec::<$D1, $D2>(&v, &state, &mut es, buf));
            let is_err = finish(es);
            let x = v as i128;
            let o = out as i128;
            kani::cover!(valid);
            // (sound) a produced value is the right one and respects the target precision; no value <=> error
            assert!(valid != is_err, "value and error must be mutually exclusive");
            if valid {
                assert!(o.unsigned_abs() < POW10[p2 as usize] as u128, "a value with more digits than the target precision was produced");
                if d <= 0 {
                    assert!(Some(o) == x.checked_mul(POW10[(-d) as usize]), "upscale must multiply exactly by 10^(s2-s1)");
                } else {
                    // o is x / 10^d rounded half away from zero  <=>  the error e = x - o*10^d satisfies 2|e| < 10^d,
                    // or 2|e| == 10^d with o further from zero than x/10^d (stated without a second divider)
                    let dd = POW10[d as usize];
                    let e = x - o * dd;
                    let twice = 2 * e.unsigned_abs();
                    let away = (x >= 0 && e < 0) || (x < 0 && e > 0);
                    assert!(twice < dd as u128 || (twice == dd as u128 && away), "downscale must round half away from zero");
                }
            }
            // (complete) a source value whose rescaled value fits the target precision is accepted
            if $complete && !valid {
                if d <= 0 {
                    let m = x.checked_mul(POW10[(-d) as usize]);
                    assert!(match m { Some(m) => m.unsigned_abs() >= POW10[p2 as usize] as u128, None => true }, "representable value rejected");
                } else {
                    // |x| / 10^d rounded is at least 10^p2  <=>  2|x| + 10^d >= 2 * 10^p2 * 10^d
                    let dd = POW10[d as usize] as u128;
                    let lim = (POW10[p2 as usize] as u128).checked_mul(dd).and_then(|l| l.checked_mul(2));
                    assert!(match lim { Some(l) => 2 * x.unsigned_abs() + dd >= l, None => false }, "representable value rejected");
                }
            }
        }
    };
}
dec_to_dec!(c13_dec2dec_d64_d64_m18__rescale, Decimal64Type, i64, decimal64, 18, Decimal64Type, i64, decimal64, 18, -18, true);
dec_to_dec!(c13_dec2dec_d64_d64_m2__rescale, Decimal64Type, i64, decimal64, 18, Decimal64Type, i64, decimal64, 18, -2, true);
dec_to_dec!(c13_dec2dec_d64_d64_p0__rescale, Decimal64Type, i64, decimal64, 18, Decimal64Type, i64, decimal64, 18, 0, true);
dec_to_dec!(c13_dec2dec_d64_d64_p1__rescale, Decimal64Type, i64, decimal64, 18, Decimal64Type, i64, decimal64, 18, 1, true);
dec_to_dec!(c13_dec2dec_d64_d64_p3__rescale__thr, Decimal64Type, i64, decimal64, 18, Decimal64Type, i64, decimal64, 18, 3, true);
dec_to_dec!(c13_dec2dec_d64_d64_p17__rescale, Decimal64Type, i64, decimal64, 18, Decimal64Type, i64, decimal64, 18, 17, true);
dec_to_dec!(c13_dec2dec_d64_d64_m17__rescale__thr, Decimal64Type, i64, decimal64, 18, Decimal64Type, i64, decimal64, 18, -17, true);
dec_to_dec!(c13_dec2dec_d64_d64_m16__rescale__thr, Decimal64Type, i64, decimal64, 18, Decimal64Type, i64, decimal64, 18, -16, true);
dec_to_dec!(c13_dec2dec_d64_d64_m15__rescale__thr, Decimal64Type, i64, decimal64, 18, Decimal64Type, i64, decimal64, 18, -15, true);
dec_to_dec!(c13_dec2dec_d64_d64_m14__rescale__thr, Decimal64Type, i64, decimal64, 18, Decimal64Type, i64, decimal64, 18, -14, true);
dec_to_dec!(c13_dec2dec_d64_d64_m13__rescale__thr, Decimal64Type, i64, decimal64, 18, Decimal64Type, i64, decimal64, 18, -13, true);
dec_to_dec!(c13_dec2dec_d64_d64_m12__rescale__thr, Decimal64Type, i64, decimal64, 18, Decimal64Type, i64, decimal64, 18, -12, true);
dec_to_dec!(c13_dec2dec_d64_d64_m11__rescale__thr, Decimal64Type, i64, decimal64, 18, Decimal64Type, i64, decimal64, 18, -11, true);
dec_to_dec!(c13_dec2dec_d64_d64_m10__rescale__thr, Decimal64Type, i64, decimal64, 18, Decimal64Type, i64, decimal64, 18, -10, true);
dec_to_dec!(c13_dec2dec_d64_d64_m9__rescale__thr, Decimal64Type, i64, decimal64, 18, Decimal64Type, i64, decimal64, 18, -9, true);
dec_to_dec!(c13_dec2dec_d64_d64_m8__rescale__thr, Decimal64Type, i64, decimal64, 18, Decimal64Type, i64, decimal64, 18, -8, true);
dec_to_dec!(c13_dec2dec_d64_d64_m7__rescale__thr, Decimal64Type, i64, decimal64, 18, Decimal64Type, i64, decimal64, 18, -7, true);
dec_to_dec!(c13_dec2dec_d64_d64_m6__rescale__thr, Decimal64Type, i64, decimal64, 18, Decimal64Type, i64, decimal64, 18, -6, true);
dec_to_dec!(c13_dec2dec_d64_d64_m5__rescale__thr, Decimal64Type, i64, decimal64, 18, Decimal64Type, i64, decimal64, 18, -5, true);
dec_to_dec!(c13_dec2dec_d64_d64_m4__rescale__thr, Decimal64Type, i64, decimal64, 18, Decimal64Type, i64, decimal64, 18, -4, true);
dec_to_dec!(c13_dec2dec_d64_d64_m3__rescale__thr, Decimal64Type, i64, decimal64, 18, Decimal64Type, i64, decimal64, 18, -3, true);
dec_to_dec!(c13_dec2dec_d64_d64_m1__rescale__thr, Decimal64Type, i64, decimal64, 18, Decimal64Type, i64, decimal64, 18, -1, true);
dec_to_dec!(c13_dec2dec_d64_d64_p2__rescale__thr, Decimal64Type, i64, decimal64, 18, Decimal64Type, i64, decimal64, 18, 2, true);
dec_to_dec!(c13_dec2dec_d64_d64_p4__rescale__thr, Decimal64Type, i64, decimal64, 18, Decimal64Type, i64, decimal64, 18, 4, true);
dec_to_dec!(c13_dec2dec_d64_d64_p5__rescale__thr, Decimal64Type, i64, decimal64, 18, Decimal64Type, i64, decimal64, 18, 5, true);
dec_to_dec!(c13_dec2dec_d64_d64_p6__rescale__thr, Decimal64Type, i64, decimal64, 18, Decimal64Type, i64, decimal64, 18, 6, true);
dec_to_dec!(c13_dec2dec_d64_d64_p7__rescale__thr, Decimal64Type, i64, decimal64, 18, Decimal64Type, i64, decimal64, 18, 7, true);
dec_to_dec!(c13_dec2dec_d64_d64_p8__rescale__thr, Decimal64Type, i64, decimal64, 18, Decimal64Type, i64, decimal64, 18, 8, true);
dec_to_dec!(c13_dec2dec_d64_d64_p9__rescale__thr, Decimal64Type, i64, decimal64, 18, Decimal64Type, i64, decimal64, 18, 9, true);
dec_to_dec!(c13_dec2dec_d64_d64_p10__rescale__thr, Decimal64Type, i64, decimal64, 18, Decimal64Type, i64, decimal64, 18, 10, true);
dec_to_dec!(c13_dec2dec_d64_d64_p11__rescale__thr, Decimal64Type, i64, decimal64, 18, Decimal64Type, i64, decimal64, 18, 11, true);
dec_to_dec!(c13_dec2dec_d64_d64_p12__rescale__thr, Decimal64Type, i64, decimal64, 18, Decimal64Type, i64, decimal64, 18, 12, true);
dec_to_dec!(c13_dec2dec_d64_d64_p13__rescale__thr, Decimal64Type, i64, decimal64, 18, Decimal64Type, i64, decimal64, 18, 13, true);
dec_to_dec!(c13_dec2dec_d64_d64_p14__rescale__thr, Decimal64Type, i64, decimal64, 18, Decimal64Type, i64, decimal64, 18, 14, true);
dec_to_dec!(c13_dec2dec_d64_d64_p15__rescale__thr, Decimal64Type, i64, decimal64, 18, Decimal64Type, i64, decimal64, 18, 15, true);
dec_to_dec!(c13_dec2dec_d64_d64_p16__rescale__thr, Decimal64Type, i64, decimal64, 18, Decimal64Type, i64, decimal64, 18, 16, true);
dec_to_dec!(c13_dec2dec_d64_d64_p18__rescale__thr, Decimal64Type, i64, decimal64, 18, Decimal64Type, i64, decimal64, 18, 18, true);
dec_to_dec!(c13_dec2dec_d64_d128_m19__rescale__thr, Decimal64Type, i64, decimal64, 18, Decimal128Type, i128, decimal128, 38, -19, true);
dec_to_dec!(c13_dec2dec_d64_d128_m2__rescale, Decimal64Type, i64, decimal64, 18, Decimal128Type, i128, decimal128, 38, -2, true);
dec_to_dec!(c13_dec2dec_d64_d128_p0__rescale, Decimal64Type, i64, decimal64, 18, Decimal128Type, i128, decimal128, 38, 0, true);
dec_to_dec!(c13_dec2dec_d64_d128_p2__rescale, Decimal64Type, i64, decimal64, 18, Decimal128Type, i128, decimal128, 38, 2, true);
dec_to_dec!(c13_dec2dec_d64_d128_m38__rescale__thr, Decimal64Type, i64, decimal64, 18, Decimal128Type, i128, decimal128, 38, -38, true);
dec_to_dec!(c13_dec2dec_d64_d128_m34__rescale__thr, Decimal64Type, i64, decimal64, 18, Decimal128Type, i128, decimal128, 38, -34, true);
dec_to_dec!(c13_dec2dec_d64_d128_m30__rescale__thr, Decimal64Type, i64, decimal64, 18, Decimal128Type, i128, decimal128, 38, -30, true);
dec_to_dec!(c13_dec2dec_d64_d128_m26__rescale__thr, Decimal64Type, i64, decimal64, 18, Decimal128Type, i128, decimal128, 38, -26, true);
dec_to_dec!(c13_dec2dec_d64_d128_m22__rescale__thr, Decimal64Type, i64, decimal64, 18, Decimal128Type, i128, decimal128, 38, -22, true);
dec_to_dec!(c13_dec2dec_d64_d128_m18__rescale__thr, Decimal64Type, i64, decimal64, 18, Decimal128Type, i128, decimal128, 38, -18, true);
dec_to_dec!(c13_dec2dec_d64_d128_m14__rescale__thr, Decimal64Type, i64, decimal64, 18, Decimal128Type, i128, decimal128, 38, -14, true);
dec_to_dec!(c13_dec2dec_d64_d128_m10__rescale__thr, Decimal64Type, i64, decimal64, 18, Decimal128Type, i128, decimal128, 38, -10, true);
dec_to_dec!(c13_dec2dec_d64_d128_m6__rescale__thr, Decimal64Type, i64, decimal64, 18, Decimal128Type, i128, decimal128, 38, -6, true);
dec_to_dec!(c13_dec2dec_d64_d128_p6__rescale__thr, Decimal64Type, i64, decimal64, 18, Decimal128Type, i128, decimal128, 38, 6, true);
dec_to_dec!(c13_dec2dec_d64_d128_p10__rescale__thr, Decimal64Type, i64, decimal64, 18, Decimal128Type, i128, decimal128, 38, 10, true);
dec_to_dec!(c13_dec2dec_d64_d128_p14__rescale__thr, Decimal64Type, i64, decimal64, 18, Decimal128Type, i128, decimal128, 38, 14, true);
dec_to_dec!(c13_dec2dec_d64_d128_p18__rescale__thr, Decimal64Type, i64, decimal64, 18, Decimal128Type, i128, decimal128, 38, 18, true);
dec_to_dec!(c13_dec2dec_d128_d64_sound_m2__rescale, Decimal128Type, i128, decimal128, 38, Decimal64Type, i64, decimal64, 18, -2, false);
dec_to_dec!(c13_dec2dec_d128_d64_sound_p0__rescale, Decimal128Type, i128, decimal128, 38, Decimal64Type, i64, decimal64, 18, 0, false);
dec_to_dec!(c13_dec2dec_d128_d64_sound_p2__rescale, Decimal128Type, i128, decimal128, 38, Decimal64Type, i64, decimal64, 18, 2, false);
dec_to_dec!(c13_dec2dec_d128_d64_sound_p5__rescale__thr, Decimal128Type, i128, decimal128, 38, Decimal64Type, i64, decimal64, 18, 5, false);
dec_to_dec!(c13_dec2dec_d128_d64_sound_m18__rescale__thr, Decimal128Type, i128, decimal128, 38, Decimal64Type, i64, decimal64, 18, -18, false);
dec_to_dec!(c13_dec2dec_d128_d64_sound_m14__rescale__thr, Decimal128Type, i128, decimal128, 38, Decimal64Type, i64, decimal64, 18, -14, false);
dec_to_dec!(c13_dec2dec_d128_d64_sound_m10__rescale__thr, Decimal128Type, i128, decimal128, 38, Decimal64Type, i64, decimal64, 18, -10, false);
dec_to_dec!(c13_dec2dec_d128_d64_sound_m6__rescale__thr, Decimal128Type, i128, decimal128, 38, Decimal64Type, i64, decimal64, 18, -6, false);
dec_to_dec!(c13_dec2dec_d128_d64_sound_p6__rescale__thr, Decimal128Type, i128, decimal128, 38, Decimal64Type, i64, decimal64, 18, 6, false);
dec_to_dec!(c13_dec2dec_d128_d64_sound_p10__rescale__thr, Decimal128Type, i128, decimal128, 38, Decimal64Type, i64, decimal64, 18, 10, false);
dec_to_dec!(c13_dec2dec_d128_d64_sound_p14__rescale__thr, Decimal128Type, i128, decimal128, 38, Decimal64Type, i64, decimal64, 18, 14, false);
dec_to_dec!(c13_dec2dec_d128_d64_sound_p18__rescale__thr, Decimal128Type, i128, decimal128, 38, Decimal64Type, i64, decimal64, 18, 18, false);
dec_to_dec!(c13_dec2dec_d128_d64_complete_p2__rescale, Decimal128Type, i128, decimal128, 38, Decimal64Type, i64, decimal64, 18, 2, true);
dec_to_dec!(c13_dec2dec_d128_d64_complete_m2__rescale__thr, Decimal128Type, i128, decimal128, 38, Decimal64Type, i64, decimal64, 18, -2, true);
dec_to_dec!(c13_dec2dec_d128_d64_complete_p0__rescale__thr, Decimal128Type, i128, decimal128, 38, Decimal64Type, i64, decimal64, 18, 0, true);
dec_to_dec!(c13_dec2dec_d128_d64_complete_p12__rescale__thr, Decimal128Type, i128, decimal128, 38, Decimal64Type, i64, decimal64, 18, 12, true);

int_to_decimal!(c13_int2dec_i64_d128_s3__exact_or_error, PhysicalI64, i64, Decimal128Type, i128, 38, 3);
int_to_decimal!(c13_int2dec_u128_d128_s2__exact_or_error, PhysicalU128, u128, Decimal128Type, i128, 38, 2);
dec_to_dec!(c13_dec2dec_d64_d128_m5__rescale, Decimal64Type, i64, decimal64, 18, Decimal128Type, i128, decimal128, 38, -5, true);

// ---- DecimalToDecimal::bind on EVERY pair of precisions and scales a DataType can carry (u8 x i8 each: complete, no
// bound; the parser and resolver admit any i8 scale not above the precision): Ok or Err, never a trap (i8 subtraction,
// power of ten); Ok => the state is (s1 - s2, 10^|s1 - s2| in the target's storage type, target precision) ----
macro_rules! dec_to_dec_bind {
    ($name:ident, $D1:ty, $mk1:ident, $D2:ty, $mk2:ident, $max_exp:expr) => {
        #[kani::proof]
        #[kani::unwind(10)]
        #[kani::stub(std::fmt::format, stub_format)]
        #[kani::stub(std::backtrace::Backtrace::capture, stub_backtrace_capture)]
        #[kani::stub(glaredb_error::DbError::new, stub_dberror_new)]
        fn $name() {
            let (s1, s2): (i8, i8) = (kani::any(), kani::any());
            let (p1, p2): (u8, u8) = (kani::any(), kani::any());
            let src = DataType::$mk1(DecimalTypeMeta::new(p1, s1));
            let target = DataType::$mk2(DecimalTypeMeta::new(p2, s2));
            kani::cover!(s1 == -128 && s2 == 127);
            kani::cover!(s1 == 30 && s2 == 0);
            match DecimalToDecimal::<$D1, $D2>::new().bind(&src, &target) {
                Ok(st) => {
                    let d = s1 as i32 - s2 as i32;
                    assert!(st.scale_diff as i32 == d, "scale difference wrapped");
                    assert!(d.unsigned_abs() <= $max_exp, "a power of ten beyond the storage type was accepted");
                    assert!(st.scale_amount as i128 == POW10[d.unsigned_abs() as usize], "scale factor is not 10^|s1 - s2|");
                    assert!(st.precision == p2, "target precision lost");
                    std::mem::forget(st);
                }
                Err(e) => std::mem::forget(e),
            }
        }
    };
}
dec_to_dec_bind!(c13c15_dec2dec_bind_d64_d64__any_scales_ok_or_err_no_trap, Decimal64Type, decimal64, Decimal64Type, decimal64, 18);
dec_to_dec_bind!(c13c15_dec2dec_bind_d128_d64__any_scales_ok_or_err_no_trap, Decimal128Type, decimal128, Decimal64Type, decimal64, 18);
dec_to_dec_bind!(c13c15_dec2dec_bind_d64_d128__any_scales_ok_or_err_no_trap, Decimal64Type, decimal64, Decimal128Type, decimal128, 38);
dec_to_dec_bind!(c13c15_dec2dec_bind_d128_d128__any_scales_ok_or_err_no_trap, Decimal128Type, decimal128, Decimal128Type, decimal128, 38);

include!("/verif/build/kani-gen/to_decimal.playback.rs");
