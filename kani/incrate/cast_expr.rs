// C13 U6 / C02 (bounded stand-in, native; NOT a proof): building `CAST(CAST(x AS mid) AS to)` with
// `CastExpr::new_using_default_casts` (which may drop the inner cast and cast x directly to `to`) has the semantics of
// the two casts applied one after the other: if the inner cast fails (x is not representable in `mid`) the whole
// expression fails, otherwise the value is x -- never a value `mid` could not hold.
// Expression trees and the cast function tables are heap / dyn structures out of reach of CBMC and Verus, so the real
// constructor + ConstFold evaluate every (source, mid, to) triple of the eight integer types on the boundary values of
// the source type (8 x 8 x 8 x <= 7 cases).
use super::*;
use crate::arrays::scalar::{BorrowedScalarValue, ScalarValue};
use crate::optimizer::expr_rewrite::ExpressionRewriteRule;
use crate::optimizer::expr_rewrite::const_fold::ConstFold;

//@fn expr/cast_expr.rs CastExpr::new_using_default_casts (nested-cast flattening)

#[derive(Clone, Copy, Debug, PartialEq)]
enum T {
    I8,
    I16,
    I32,
    I64,
    U8,
    U16,
    U32,
    U64,
}

impl T {
    fn range(self) -> (i128, i128) {
        match self {
            T::I8 => (i8::MIN as i128, i8::MAX as i128),
            T::I16 => (i16::MIN as i128, i16::MAX as i128),
            T::I32 => (i32::MIN as i128, i32::MAX as i128),
            T::I64 => (i64::MIN as i128, i64::MAX as i128),
            T::U8 => (0, u8::MAX as i128),
            T::U16 => (0, u16::MAX as i128),
            T::U32 => (0, u32::MAX as i128),
            T::U64 => (0, u64::MAX as i128),
        }
    }
    fn datatype(self) -> DataType {
        match self {
            T::I8 => DataType::int8(),
            T::I16 => DataType::int16(),
            T::I32 => DataType::int32(),
            T::I64 => DataType::int64(),
            T::U8 => DataType::uint8(),
            T::U16 => DataType::uint16(),
            T::U32 => DataType::uint32(),
            T::U64 => DataType::uint64(),
        }
    }
    fn scalar(self, v: i128) -> ScalarValue {
        match self {
            T::I8 => ScalarValue::Int8(v as i8),
            T::I16 => ScalarValue::Int16(v as i16),
            T::I32 => ScalarValue::Int32(v as i32),
            T::I64 => ScalarValue::Int64(v as i64),
            T::U8 => ScalarValue::UInt8(v as u8),
            T::U16 => ScalarValue::UInt16(v as u16),
            T::U32 => ScalarValue::UInt32(v as u32),
            T::U64 => ScalarValue::UInt64(v as u64),
        }
    }
}

fn as_i128(v: &ScalarValue) -> Option<i128> {
    Some(match v {
        BorrowedScalarValue::Int8(v) => *v as i128,
        BorrowedScalarValue::Int16(v) => *v as i128,
        BorrowedScalarValue::Int32(v) => *v as i128,
        BorrowedScalarValue::Int64(v) => *v as i128,
        BorrowedScalarValue::UInt8(v) => *v as i128,
        BorrowedScalarValue::UInt16(v) => *v as i128,
        BorrowedScalarValue::UInt32(v) => *v as i128,
        BorrowedScalarValue::UInt64(v) => *v as i128,
        _ => return None,
    })
}

#[test]
fn c02c13_nested_cast__same_as_two_casts__nat() {
    let all = [T::I8, T::I16, T::I32, T::I64, T::U8, T::U16, T::U32, T::U64];
    let mut cases = 0usize;
    let mut flattened = 0usize;
    for src in all {
        let (lo, hi) = src.range();
        let mut vals = vec![lo, lo + 1, -1, 0, 1, 127, 128, 255, 256, 1000, 70000, hi - 1, hi];
        vals.retain(|v| *v >= lo && *v <= hi);
        vals.sort();
        vals.dedup();
        for mid in all {
            for to in all {
                for &x in &vals {
                    let inner = CastExpr::new_using_default_casts(crate::expr::lit(src.scalar(x)), mid.datatype()).unwrap();
                    let outer = CastExpr::new_using_default_casts(Expression::Cast(inner), to.datatype()).unwrap();
                    if !matches!(outer.expr.as_ref(), Expression::Cast(_)) {
                        flattened += 1;
                    }
                    let got = ConstFold::rewrite(Expression::Cast(outer)).and_then(|e| e.try_into_scalar());
                    let (ml, mh) = mid.range();
                    let (tl, th) = to.range();
                    let want = if x >= ml && x <= mh && x >= tl && x <= th { Some(x) } else { None };
                    match (&got, want) {
                        (Ok(v), Some(w)) => assert!(as_i128(v) == Some(w), "CAST(CAST({x}::{src:?} AS {mid:?}) AS {to:?}) = {v}, expected {w}"),
                        (Err(_), None) => (),
                        (Ok(v), None) => panic!("CAST(CAST({x}::{src:?} AS {mid:?}) AS {to:?}) returns {v} although {x} is not representable in {}", if x < ml || x > mh { format!("{mid:?} (the inner cast must fail)") } else { format!("{to:?}") }),
                        (Err(e), Some(w)) => panic!("CAST(CAST({x}::{src:?} AS {mid:?}) AS {to:?}) fails ({e}) although the value {w} fits both types"),
                    }
                    cases += 1;
                }
            }
        }
    }
    assert!(cases > 3000);
    assert!(flattened > 100, "the constructor flattened only {flattened} nested casts");
}

// C13 (bounded stand-in, native): FLOAT / DOUBLE -> DECIMAL(p, s) chooses the neighbour "half away from zero".  Every
// dyadic value q / 2^(s+3), |q| <= 4000, for s in 0..=3 (these include every tie (2t+1) / 2^(s+1), e.g. -2.5 at scale 0,
// 0.125 at scale 2; the product with 10^s is exact in binary floating point, so the expected value is computed in
// integer arithmetic) is cast through the real bind -> cast kernel path.
#[test]
fn c13_float2dec__rounds_half_away_from_zero__nat() {
    use crate::arrays::datatype::DecimalTypeMeta;
    let mut cases = 0usize;
    let mut ties = 0usize;
    for s in 0..=3u32 {
        let den: i128 = 1 << (s + 3);
        for q in -4000i128..=4000 {
            // exact value of v * 10^s = q * 10^s / den
            let num = q * 10i128.pow(s);
            let (quo, rem) = (num.abs() / den, num.abs() % den);
            let mag = if 2 * rem >= den { quo + 1 } else { quo };
            if 2 * rem == den {
                ties += 1;
            }
            let want = if num < 0 { -mag } else { mag };
            let v64 = q as f64 / den as f64;
            for (src, name) in [(ScalarValue::Float64(v64), "DOUBLE"), (ScalarValue::Float32(v64 as f32), "REAL")] {
                let cast = CastExpr::new_using_default_casts(crate::expr::lit(src), DataType::decimal64(DecimalTypeMeta::new(12, s as i8))).unwrap();
                let got = ConstFold::rewrite(Expression::Cast(cast)).and_then(|e| e.try_into_scalar());
                match got {
                    Ok(BorrowedScalarValue::Decimal64(d)) => assert!(
                        d.value as i128 == want && d.scale == s as i8,
                        "CAST({v64}::{name} AS DECIMAL(12,{s})) has unscaled value {}, round-half-away-from-zero gives {want}",
                        d.value
                    ),
                    other => panic!("CAST({v64}::{name} AS DECIMAL(12,{s})) did not produce a decimal: {other:?}"),
                }
                cases += 1;
            }
        }
    }
    assert!(cases == 4 * 8001 * 2 && ties > 3000);
}

include!("/verif/build/kani-gen/cast_expr.playback.rs");
