// C02 U6 (bounded stand-in, native; NOT a proof): filter pushdown through an aggregate is an equivalence.
// `FilterPushdown` rewrites heap-allocated plan trees (Vec / Box / BTreeSet / bind context): out of reach of Verus and
// CBMC.  The real rule is executed on every member of a stated finite family and BOTH plans are evaluated by a small
// reference interpreter written from the SQL definition of GROUP BY with grouping sets:
//   plan     Filter(p) -> Aggregate(GROUP BY <grouping sets> over (in.a, in.b), no aggregate functions) -> leaf(in)
//   sets     every non-empty family of subsets of {a, b}  (15 families: plain GROUP BY, ROLLUP, CUBE, GROUPING SETS ...)
//   p        g.a = 1 | g.b = 1 | g.a = 1 AND g.b = 1 | g.a = g.b | g.a = 1 OR g.b = 2
//   tables   four small instances of in(a, b) incl. the empty table and NULLs
// Specification: a grouping set yields one row per distinct value combination of ITS columns, the other group columns
// being NULL (the empty grouping set yields exactly one row, also on an empty input); Filter keeps the rows whose
// predicate is TRUE.  The optimized plan must return the same multiset of group rows as the original plan.
// The leaf is a `NoRows` node standing for the scan of `in` (the rule does not look inside leaves).
use std::collections::{BTreeMap, BTreeSet};

use super::*;
use crate::arrays::datatype::DataType;
use crate::arrays::scalar::ScalarValue;
use crate::expr::comparison_expr::ComparisonOperator;
use crate::expr::conjunction_expr::ConjunctionOperator;

//@fn optimizer/filter_pushdown/mod.rs FilterPushdown::{optimize, pushdown_aggregate, pushdown_filter, stop_pushdown}

type Row = BTreeMap<(usize, usize), Option<i64>>;

#[derive(Clone, Copy, PartialEq, Eq, Debug)]
enum V {
    Null,
    Int(i64),
    Bool(bool),
}

fn eval(e: &Expression, row: &Row) -> V {
    match e {
        Expression::Column(c) => match row.get(&(c.reference.table_scope.table_idx, c.reference.column)) {
            Some(Some(v)) => V::Int(*v),
            Some(None) => V::Null,
            None => panic!("plan references a column that is not in scope: {e}"),
        },
        Expression::Literal(l) => match &l.0 {
            ScalarValue::Null => V::Null,
            ScalarValue::Boolean(b) => V::Bool(*b),
            ScalarValue::Int32(v) => V::Int(*v as i64),
            ScalarValue::Int64(v) => V::Int(*v),
            other => panic!("unexpected literal {other:?}"),
        },
        Expression::Cast(c) => eval(&c.expr, row),
        Expression::Comparison(c) => match (eval(&c.left, row), eval(&c.right, row)) {
            (V::Int(a), V::Int(b)) => V::Bool(match c.op {
                ComparisonOperator::Eq => a == b,
                ComparisonOperator::NotEq => a != b,
                ComparisonOperator::Lt => a < b,
                ComparisonOperator::LtEq => a <= b,
                ComparisonOperator::Gt => a > b,
                ComparisonOperator::GtEq => a >= b,
                _ => panic!("unexpected operator"),
            }),
            _ => V::Null,
        },
        Expression::Conjunction(c) => {
            let dominant = c.op == ConjunctionOperator::Or;
            let (mut hit, mut any_null) = (false, false);
            for child in &c.expressions {
                match eval(child, row) {
                    V::Bool(b) if b == dominant => hit = true,
                    V::Bool(_) => (),
                    _ => any_null = true,
                }
            }
            if hit {
                V::Bool(dominant)
            } else if any_null {
                V::Null
            } else {
                V::Bool(!dominant)
            }
        }
        other => panic!("expression outside the interpreted fragment: {other}"),
    }
}

fn run(plan: &LogicalOperator, t_in: TableRef, table: &[(Option<i64>, Option<i64>)]) -> Vec<Row> {
    match plan {
        LogicalOperator::NoRows(_) => table
            .iter()
            .map(|(a, b)| Row::from([((t_in.table_idx, 0), *a), ((t_in.table_idx, 1), *b)]))
            .collect(),
        LogicalOperator::Filter(f) => run(&f.children[0], t_in, table).into_iter().filter(|r| eval(&f.node.filter, r) == V::Bool(true)).collect(),
        LogicalOperator::Aggregate(a) => {
            let input = run(&a.children[0], t_in, table);
            let g = a.node.group_table.expect("group table").table_idx;
            let mut out = Vec::new();
            for set in a.node.grouping_sets.as_ref().expect("grouping sets") {
                let mut keys: BTreeSet<Vec<Option<i64>>> = BTreeSet::new();
                for r in &input {
                    keys.insert(
                        a.node
                            .group_exprs
                            .iter()
                            .enumerate()
                            .map(|(i, e)| if set.contains(&i) { match eval(e, r) { V::Int(v) => Some(v), _ => None } } else { None })
                            .collect(),
                    );
                }
                if set.is_empty() && keys.is_empty() {
                    keys.insert(vec![None; a.node.group_exprs.len()]);
                }
                for k in keys {
                    out.push(k.into_iter().enumerate().map(|(i, v)| ((g, i), v)).collect());
                }
            }
            out
        }
        other => panic!("plan operator outside the interpreted fragment: {other:?}"),
    }
}

fn leaf(t: TableRef) -> LogicalOperator {
    LogicalOperator::NoRows(Node {
        node: LogicalNoRows { table_refs: vec![t] },
        location: LocationRequirement::Any,
        children: Vec::new(),
        estimated_cardinality: StatisticsValue::Unknown,
    })
}

#[test]
fn c02_filter_pushdown_aggregate__same_groups__nat() {
    let subsets: [Vec<usize>; 4] = [vec![], vec![0], vec![1], vec![0, 1]];
    let tables: [Vec<(Option<i64>, Option<i64>)>; 4] = [
        vec![],
        vec![(Some(1), Some(1)), (Some(1), Some(2)), (Some(2), Some(1))],
        vec![(Some(2), Some(2)), (None, Some(1)), (Some(1), None)],
        vec![(Some(1), Some(1)), (Some(1), Some(1)), (Some(3), Some(2)), (None, None)],
    ];
    let mut cases = 0usize;
    let mut pushed = 0usize;
    for family in 1..16u32 {
        let sets: Vec<BTreeSet<usize>> = (0..4).filter(|i| family & (1 << i) != 0).map(|i| subsets[i].iter().copied().collect()).collect();
        for pred in 0..5 {
            let mut bind_context = BindContext::new_for_root();
            let t_in = bind_context.new_ephemeral_table_with_columns([DataType::int32(), DataType::int32()], ["a", "b"]).unwrap();
            let t_group = bind_context.new_ephemeral_table_with_columns([DataType::int32(), DataType::int32()], ["a", "b"]).unwrap();
            let t_agg = bind_context.new_ephemeral_table().unwrap();
            let ga = || expr::column((t_group, 0), DataType::int32());
            let gb = || expr::column((t_group, 1), DataType::int32());
            let p: Expression = match pred {
                0 => expr::eq(ga(), expr::lit(1)).unwrap().into(),
                1 => expr::eq(gb(), expr::lit(1)).unwrap().into(),
                2 => expr::and([expr::eq(ga(), expr::lit(1)).unwrap().into(), expr::eq(gb(), expr::lit(1)).unwrap().into()]).unwrap().into(),
                3 => expr::eq(ga(), gb()).unwrap().into(),
                _ => expr::or([expr::eq(ga(), expr::lit(1)).unwrap().into(), expr::eq(gb(), expr::lit(2)).unwrap().into()]).unwrap().into(),
            };
            let build = || {
                let agg = LogicalOperator::Aggregate(Node {
                    node: LogicalAggregate {
                        aggregates_table: t_agg,
                        aggregates: Vec::new(),
                        group_table: Some(t_group),
                        group_exprs: vec![expr::column((t_in, 0), DataType::int32()), expr::column((t_in, 1), DataType::int32())],
                        grouping_sets: Some(sets.clone()),
                        grouping_functions_table: None,
                        grouping_functions: Vec::new(),
                    },
                    location: LocationRequirement::Any,
                    children: vec![leaf(t_in)],
                    estimated_cardinality: StatisticsValue::Unknown,
                });
                LogicalOperator::Filter(Node {
                    node: LogicalFilter { filter: p.clone() },
                    location: LocationRequirement::Any,
                    children: vec![agg],
                    estimated_cardinality: StatisticsValue::Unknown,
                })
            };
            let original = build();
            let optimized = FilterPushdown::default().optimize(&mut bind_context, build()).unwrap();
            if !matches!(optimized, LogicalOperator::Filter(_)) {
                pushed += 1;
            }
            for table in &tables {
                let mut want = run(&original, t_in, table);
                let mut got = run(&optimized, t_in, table);
                want.sort();
                got.sort();
                assert!(
                    want == got,
                    "filter pushdown changes the result: predicate `{p}` over GROUP BY with grouping sets {sets:?} on table {table:?} returns {want:?}; the optimized plan returns {got:?}"
                );
                cases += 1;
            }
        }
    }
    assert!(cases == 15 * 5 * 4);
    assert!(pushed >= 5, "the rule pushed the filter down in only {pushed} plans");
}

include!("/verif/build/kani-gen/filter_pushdown.playback.rs");
