# Route-3 kernel extraction table: hook -> list of closure specs (see extract/gen_kernels.py)
KERNELS = {
    'arith_add': [
        dict(name='add', impl=r'impl<S> ScalarFunction for Add<S>'),
        dict(name='dadd', impl=r'impl<D> ScalarFunction for DecimalAdd<D>'),
    ],
    'arith_sub': [
        dict(name='sub', impl=r'impl<S> ScalarFunction for Sub<S>'),
        dict(name='dsub', impl=r'impl<D> ScalarFunction for DecimalSub<D>'),
    ],
    'arith_mul': [
        dict(name='mul', impl=r'impl<S> ScalarFunction for Mul<S>'),
        dict(name='dmul', impl=r'impl<D> ScalarFunction for DecimalMul<D>'),
        dict(name='imul', impl=r'impl<Rhs, const LHS_RHS_FLIPPED: bool> ScalarFunction for MulInterval'),
    ],
    'arith_div': [
        dict(name='div', impl=r'impl<S> ScalarFunction for Div<S>'),
    ],
    'arith_rem': [
        dict(name='rem', impl=r'impl<S> ScalarFunction for Rem<S>'),
    ],
    'comparison': [
        dict(name='flat_cmp', impl=r'impl<O, S> ScalarFunction for FlatComparison<O, S>'),
        dict(name='dec_cmp', impl=r'impl<O, D> ScalarFunction for DecimalComparison<O, D>'),
    ],
    'boolean': [
        dict(name='and1', impl=r'impl ScalarFunction for And\b', nth=0),
        dict(name='and2', impl=r'impl ScalarFunction for And\b', nth=1),
        dict(name='andn', impl=r'impl ScalarFunction for And\b', nth=2),
        dict(name='or1', impl=r'impl ScalarFunction for Or\b', nth=0),
        dict(name='or2', impl=r'impl ScalarFunction for Or\b', nth=1),
        dict(name='orn', impl=r'impl ScalarFunction for Or\b', nth=2),
    ],
    'negate': [
        dict(name='negate', impl=r'impl<S> ScalarFunction for Negate<S>'),
        dict(name='not', impl=r'impl ScalarFunction for Not\b'),
    ],
    'to_primitive': [
        dict(name='prim2prim', impl=r'impl<S1, S2> CastFunction for PrimToPrim<S1, S2>', fn='cast', captures='error_state: &mut CastErrorState'),
        dict(name='dec2float', impl=r'impl<D, S> CastFunction for DecimalToFloat<D, S>', fn='cast',
             captures='state: &<DecimalToFloat<D, S> as CastFunction>::State, error_state: &mut CastErrorState'),
    ],
    'to_decimal': [
        dict(name='int2dec', impl=r'impl<S, D> CastFunction for IntToDecimal<S, D>', fn='cast',
             captures='state: &<IntToDecimal<S, D> as CastFunction>::State, error_state: &mut CastErrorState'),
        dict(name='float2dec', impl=r'impl<S, D> CastFunction for FloatToDecimal<S, D>', fn='cast',
             captures='state: &<FloatToDecimal<S, D> as CastFunction>::State, error_state: &mut CastErrorState'),
        dict(name='dec2dec', impl=r'impl<D1, D2> CastFunction for DecimalToDecimal<D1, D2>', fn='cast',
             captures='state: &<DecimalToDecimal<D1, D2> as CastFunction>::State, error_state: &mut CastErrorState'),
    ],
}
