use super::*;
// C03 / C06 (bounded stand-in, native; NOT a proof): the nested-loop join operator against the DEFINITION of the join,
// for every way the probe side is cut into batches.  Real operator driven through its poll interface (one partition):
// build side pushed in one or two batches, probe side delivered in batches of 1, 2, 3, 4 or all rows, LEFT / SEMI
// joins drained after the probe side is finalized.  Rows: left in {[], [5], [5, 20], [2, 5, 5, NULL]}, right in
// {[], [1, 2, 3, 10], [1, 2, 3, 10, 11, 12, 13, 14], [7, NULL, 3, 5, 30, 1, 5]}; conditions `l.a > r.b` and `l.a = r.b`.
//   INNER       every pair (l, r) whose condition is TRUE
//   RIGHT       INNER + every right row without a match, with a NULL left side
//   LEFT        INNER + every left row without a match, with a NULL right side
//   LEFT SEMI   every left row with at least one match   (LEFT ANTI is not supported by this operator)
// The result (as a multiset) must not depend on the probe batch size or on how the build side was cut.
use crate::arrays::array::Array;
use crate::arrays::scalar::BorrowedScalarValue;
use crate::logical::binder::table_list::TableList;
use crate::testutil::exprs::plan_scalar;
use crate::testutil::operator::OperatorWrapper;
use crate::util::iter::TryFromExactSizeIterator;
use crate::expr;

//@fn execution/operators/nested_loop_join/mod.rs PhysicalNestedLoopJoin::{poll_push, poll_finalize_push, poll_execute, poll_finalize_execute}
//@fn execution/operators/nested_loop_join/match_tracker.rs MatchTracker (right matches per probe batch, left matches shared)

type Row = (Option<i32>, Option<i32>);

fn val(a: &Array, row: usize) -> Option<i32> {
    match a.get_value(row).unwrap() {
        BorrowedScalarValue::Null => None,
        BorrowedScalarValue::Int32(v) => Some(v),
        other => panic!("unexpected value {other:?}"),
    }
}

fn run_nlj(join_type: JoinType, gt: bool, left: &[Option<i32>], build_cut: usize, right: &[Option<i32>], probe_batch: usize) -> Vec<Row> {
    let mut list = TableList::empty();
    let t0 = list.push_table(None, [DataType::int32()], ["a"]).unwrap();
    let t1 = list.push_table(None, [DataType::int32()], ["b"]).unwrap();
    let (l, r) = (expr::column((t0, 0), DataType::int32()), expr::column((t1, 0), DataType::int32()));
    let cond = if gt { plan_scalar(&list, expr::gt(l, r).unwrap()) } else { plan_scalar(&list, expr::eq(l, r).unwrap()) };
    let left_only = matches!(join_type, JoinType::LeftSemi | JoinType::LeftAnti);
    let wrapper = OperatorWrapper::new(PhysicalNestedLoopJoin::new(join_type, [DataType::int32()], [DataType::int32()], Some(cond)).unwrap());
    let cap = probe_batch.max(left.len()).max(4);
    let props = ExecutionProperties { batch_size: cap };
    let op_state = wrapper.operator.create_operator_state(props).unwrap();
    let mut push_states = wrapper.operator.create_partition_push_states(&op_state, props, 1).unwrap();
    let mut probe_states = wrapper.operator.create_partition_execute_states(&op_state, props, 1).unwrap();
    // build
    let cut = build_cut.min(left.len());
    for part in [&left[..cut], &left[cut..]] {
        if part.is_empty() {
            continue;
        }
        let mut b = Batch::from_arrays([Array::try_from_iter(part.to_vec()).unwrap()]).unwrap();
        assert!(wrapper.poll_push(&op_state, &mut push_states[0], &mut b).unwrap() == PollPush::NeedsMore);
    }
    assert!(wrapper.poll_finalize_push(&op_state, &mut push_states[0]).unwrap() == PollFinalize::Finalized);
    // probe
    let out_types: Vec<DataType> = if left_only { vec![DataType::int32()] } else { vec![DataType::int32(), DataType::int32()] };
    let mut rows: Vec<Row> = Vec::new();
    let mut output = Batch::new(out_types, cap).unwrap();
    let mut collect = |output: &Batch, rows: &mut Vec<Row>| {
        for row in 0..output.num_rows() {
            let l = val(&output.arrays[0], row);
            let r = if left_only { None } else { val(&output.arrays[1], row) };
            rows.push((l, r));
        }
    };
    let mut polls = 0usize;
    for chunk in right.chunks(probe_batch.max(1)) {
        let mut probe_input = Batch::from_arrays([Array::try_from_iter(chunk.to_vec()).unwrap()]).unwrap();
        loop {
            polls += 1;
            assert!(polls < 10_000, "nested loop join does not make progress");
            let poll = wrapper.poll_execute(&op_state, &mut probe_states[0], &mut probe_input, &mut output).unwrap();
            match poll {
                PollExecute::NeedsMore => break,
                PollExecute::HasMore => collect(&output, &mut rows),
                PollExecute::Ready => {
                    collect(&output, &mut rows);
                    break;
                }
                other => panic!("unexpected poll: {other:?}"),
            }
        }
    }
    match wrapper.poll_finalize_execute(&op_state, &mut probe_states[0]).unwrap() {
        PollFinalize::Finalized => (),
        PollFinalize::NeedsDrain => {
            let mut empty = Batch::new([DataType::int32()], cap).unwrap();
            loop {
                polls += 1;
                assert!(polls < 10_000, "nested loop join drain does not make progress");
                match wrapper.poll_execute(&op_state, &mut probe_states[0], &mut empty, &mut output).unwrap() {
                    PollExecute::HasMore => collect(&output, &mut rows),
                    PollExecute::Exhausted => {
                        collect(&output, &mut rows);
                        break;
                    }
                    other => panic!("unexpected poll while draining: {other:?}"),
                }
            }
        }
        other => panic!("unexpected finalize: {other:?}"),
    }
    rows.sort();
    rows
}

fn spec(join_type: JoinType, gt: bool, left: &[Option<i32>], right: &[Option<i32>]) -> Vec<Row> {
    let m = |l: Option<i32>, r: Option<i32>| match (l, r) {
        (Some(a), Some(b)) => if gt { a > b } else { a == b },
        _ => false,
    };
    let mut rows: Vec<Row> = Vec::new();
    match join_type {
        JoinType::LeftSemi => rows.extend(left.iter().filter(|&&l| right.iter().any(|&r| m(l, r))).map(|&l| (l, None))),
        JoinType::LeftAnti => rows.extend(left.iter().filter(|&&l| !right.iter().any(|&r| m(l, r))).map(|&l| (l, None))),
        _ => {
            for &l in left {
                for &r in right {
                    if m(l, r) {
                        rows.push((l, r));
                    }
                }
            }
            if matches!(join_type, JoinType::Right) {
                rows.extend(right.iter().filter(|&&r| !left.iter().any(|&l| m(l, r))).map(|&r| (None, r)));
            }
            if matches!(join_type, JoinType::Left) {
                rows.extend(left.iter().filter(|&&l| !right.iter().any(|&r| m(l, r))).map(|&l| (l, None)));
            }
        }
    }
    rows.sort();
    rows
}

#[test]
fn c03c06_nested_loop_join__definition_of_join_any_probe_batching__nat() {
    let lefts: [Vec<Option<i32>>; 4] = [vec![], vec![Some(5)], vec![Some(5), Some(20)], vec![Some(2), Some(5), Some(5), None]];
    let rights: [Vec<Option<i32>>; 4] = [
        vec![],
        vec![Some(1), Some(2), Some(3), Some(10)],
        vec![Some(1), Some(2), Some(3), Some(10), Some(11), Some(12), Some(13), Some(14)],
        vec![Some(7), None, Some(3), Some(5), Some(30), Some(1), Some(5)],
    ];
    let mut cases = 0usize;
    for (jt, name) in [(JoinType::Inner, "INNER"), (JoinType::Right, "RIGHT"), (JoinType::Left, "LEFT"), (JoinType::LeftSemi, "LEFT SEMI")] {
        for gt in [true, false] {
            for left in &lefts {
                for right in &rights {
                    let want = spec(jt, gt, left, right);
                    for build_cut in [0usize, 1] {
                        for probe_batch in [1usize, 2, 3, 4, 8] {
                            let got = run_nlj(jt, gt, left, build_cut, right, probe_batch);
                            assert!(
                                got == want,
                                "{name} JOIN ON l.a {} r.b, left {left:?} (built in batches cut at {build_cut}), right {right:?} probed {probe_batch} rows at a time: got {got:?}, the definition gives {want:?}",
                                if gt { ">" } else { "=" }
                            );
                            cases += 1;
                        }
                    }
                }
            }
        }
    }
    assert!(cases == 4 * 2 * 4 * 4 * 2 * 5);
}
include!("/verif/build/kani-gen/nlj.playback.rs");
