// C11 U3 (bounded stand-in, native; NOT a proof): `ScanFilter::plan` names the FILE column of the column a pushed-down
// filter references.  The scan's table ref exposes only the projected columns, file readers match filters by
// `ProjectedColumn::Data(<index in the file schema>)`; a filter attributed to another column is checked against the
// wrong statistics and prunes row groups that hold matching rows.  (Expression planner / bind context are heap
// structures out of CBMC's reach.)  Family: a table of 4 file columns, every projection that is an arrangement of
// 1..=3 distinct columns (40 of them), a filter `col = 7` / `7 = col` on every projected position.
use super::*;
use crate::arrays::datatype::DataType;
use crate::arrays::scalar::ScalarValue;
use crate::expr;

//@fn storage/scan_filter.rs ScanFilter::plan

#[test]
fn c11_scan_filter_plan__file_column_of_projected_column__nat() {
    let mut cases = 0usize;
    let mut projs: Vec<Vec<usize>> = Vec::new();
    for a in 0..4usize {
        projs.push(vec![a]);
        for b in 0..4usize {
            if b == a {
                continue;
            }
            projs.push(vec![a, b]);
            for c in 0..4usize {
                if c == a || c == b {
                    continue;
                }
                projs.push(vec![a, b, c]);
            }
        }
    }
    for proj in &projs {
        let mut bind_context = BindContext::new_for_root();
        let names: Vec<String> = proj.iter().map(|c| format!("c{c}")).collect();
        let table_ref = bind_context
            .new_ephemeral_table_with_columns(proj.iter().map(|_| DataType::int32()), names.iter().map(|s| s.as_str()))
            .unwrap();
        let projections = Projections::new(proj.iter().copied());
        for j in 0..proj.len() {
            for flipped in [false, true] {
                let col = bind_context.get_table_list().column_as_expr((table_ref, j)).unwrap();
                let expression: Expression = if flipped {
                    expr::eq(expr::lit(7_i32), col).unwrap().into()
                } else {
                    expr::eq(col, expr::lit(7_i32)).unwrap().into()
                };
                let planner = PhysicalExpressionPlanner::new(bind_context.get_table_list());
                let planned = ScanFilter { expression }.plan(table_ref, &bind_context, &projections, &planner).unwrap();
                assert!(
                    planned.columns == vec![ProjectedColumn::Data(proj[j])],
                    "projection {proj:?}: a filter on projected column {j} (file column {}) is attributed to {:?}",
                    proj[j],
                    planned.columns
                );
                assert!(
                    matches!(planned.filter_type, PhysicalScanFilterType::ConstantEq(ScalarValue::Int32(7))),
                    "projection {proj:?}: `col = 7` is not planned as a constant-equality filter on 7: {:?}",
                    planned.filter_type
                );
                cases += 1;
            }
        }
    }
    assert!(cases == 2 * (4 + 24 + 72));
}

include!("/verif/build/kani-gen/scan_filter.playback.rs");
