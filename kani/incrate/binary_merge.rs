// C16 / C08 (bounded stand-in, native; NOT a proof): sorted runs with heap-backed (string) keys and payloads through the
// real `BinaryMerger::merge`.  Row blocks hold RAW POINTERS into heap blocks; a merged run copies rows of both inputs, so
// it must OWN every heap block its rows point into (otherwise the blocks are freed with the input run and the next merge
// / scan reads freed memory).  For every triple of runs from a stated family (1..=3 rows each; keys and payloads of 20+
// bytes sharing a prefix longer than the 12 inlined bytes, mixed with short inline strings), merged in both orders
// (a+b)+c and c+(a+b), with block capacities 2 and 16 and with / without a limit hint:
//   * after EVERY merge, each non-inline string slot of every heap-key row and every payload row of the merged run points
//     into a heap block owned by the merged run (address-range check against `heap_keys_heap` / `data_heap`);
//   * the merged run holds the rows of both inputs (or at least the hinted number), and the final run scans back the
//     payloads in key order.
use super::*;
use crate::arrays::batch::Batch;
use crate::arrays::datatype::DataType;
use crate::arrays::row::block::Block;
use crate::arrays::row::row_layout::RowLayout;
use crate::arrays::string::StringPtr;
use crate::buffer::buffer_manager::DefaultBufferManager;
use crate::testutil::arrays::TestSortedRowBlock;
use crate::util::iter::TryFromExactSizeIterator;

//@fn arrays/sort/binary_merge.rs BinaryMerger::{merge, merge_keys, merge_heap_keys, merge_data, find_merge_side}

fn owned(rows: &[Block], layout: &RowLayout, heaps: &[Block], what: &str, ctx: &str) {
    for (bi, block) in rows.iter().enumerate() {
        for row in 0..block.num_rows(layout.row_width) {
            for col in 0..layout.num_columns() {
                if !matches!(layout.types[col].id(), crate::arrays::datatype::DataTypeId::Utf8 | crate::arrays::datatype::DataTypeId::Binary) {
                    continue;
                }
                let sp = unsafe { block.as_ptr().byte_add(layout.row_width * row + layout.offsets[col]).cast::<StringPtr>().read_unaligned() };
                if sp.is_reference() {
                    let addr = sp.as_reference().ptr.addr();
                    let len = sp.data_len() as usize;
                    assert!(
                        heaps.iter().any(|h| h.data.contains_addr(addr) && h.data.contains_addr(addr + len - 1)),
                        "merged sorted run does not own the memory its rows point into: {what} block {bi} row {row} column {col} ({len} bytes) points outside the run's {} heap blocks ({ctx})",
                        heaps.len()
                    );
                }
            }
        }
    }
}

fn check_run(seg: &SortedSegment, tb: &TestSortedRowBlock, ctx: &str) {
    owned(&seg.heap_keys, &tb.key_layout.heap_layout, &seg.heap_keys_heap, "heap key", ctx);
    owned(&seg.data, &tb.data_layout, &seg.data_heap, "payload", ctx);
}

fn run_of(keys: &[&str]) -> (TestSortedRowBlock, Vec<String>) {
    let k: Vec<String> = keys.iter().map(|s| s.to_string()).collect();
    let payload: Vec<String> = keys.iter().map(|s| format!("payload-of-{s}-{}", "p".repeat(s.len() % 7))).collect();
    let batch = Batch::from_arrays([
        crate::arrays::array::Array::try_from_iter(k.iter().map(|s| s.as_str())).unwrap(),
        crate::arrays::array::Array::try_from_iter(payload.iter().map(|s| s.as_str())).unwrap(),
    ])
    .unwrap();
    (TestSortedRowBlock::from_batch(&batch, [0]), k)
}

#[test]
fn c08c16_binary_merge__merged_run_owns_its_heap_blocks__nat() {
    const P: &str = "$$$$$$$$$$$$$$$$$$$$"; // 20 bytes: longer than the inlined prefix
    let pool: Vec<String> = vec![
        format!("{P}a"), format!("{P}b"), format!("{P}c"), format!("{P}d"), format!("{P}e"), format!("{P}f"), format!("{P}g"),
        "a".to_string(), "zz".to_string(), format!("{P}"), format!("{P}aa"), "$$$$$$$$$$$$".to_string(), "$$$$$$$$$$$$$".to_string(),
    ];
    // families of three runs (indices into the pool)
    let triples: Vec<[Vec<usize>; 3]> = vec![
        [vec![0, 3, 6], vec![1, 4], vec![2, 5]],
        [vec![0], vec![1], vec![2]],
        [vec![6, 5, 4], vec![3, 2, 1], vec![0]],
        [vec![7, 0, 8], vec![9, 10], vec![11, 12, 1]],
        [vec![0, 0, 0], vec![0, 1], vec![0]],
        [vec![7, 8], vec![7], vec![8, 7, 7]],
        [vec![10, 9, 12], vec![11, 2, 3], vec![5, 8, 0]],
    ];
    let mut cases = 0usize;
    for triple in &triples {
        for cap in [2usize, 16] {
            for hint in [None, Some(2usize)] {
                for order in 0..2 {
                    let runs: Vec<(TestSortedRowBlock, Vec<String>)> = triple.iter().map(|idx| run_of(&idx.iter().map(|i| pool[*i].as_str()).collect::<Vec<_>>())).collect();
                    let ctx = format!("runs {:?}, block capacity {cap}, limit hint {hint:?}, order {}", triple, if order == 0 { "(a+b)+c" } else { "c+(a+b)" });
                    let mut all: Vec<String> = runs.iter().flat_map(|(_, k)| k.clone()).collect();
                    all.sort();
                    let mut it = runs.into_iter();
                    let (a, _) = it.next().unwrap();
                    let (b, _) = it.next().unwrap();
                    let (c, _) = it.next().unwrap();
                    let merger = BinaryMerger::new(&DefaultBufferManager, &a.key_layout, &a.data_layout, cap);
                    let mut state = merger.init_merge_state();
                    let key_layout = a.key_layout.clone();
                    let data_layout = a.data_layout.clone();
                    let tb_layouts = TestSortedRowBlock { key_layout: key_layout.clone(), data_layout: data_layout.clone(), sorted_block: c.sorted_block };
                    let a_run = SortedSegment::from_sorted_block(a.sorted_block);
                    let b_run = SortedSegment::from_sorted_block(b.sorted_block);
                    // c's block was moved into tb_layouts (which also carries the layouts for the checks)
                    let TestSortedRowBlock { sorted_block: c_block, .. } = tb_layouts;
                    let layouts = run_of(&[pool[0].as_str()]).0; // only for its layouts
                    let c_run = SortedSegment::from_sorted_block(c_block);
                    let ab = merger.merge(&mut state, a_run, b_run, hint).unwrap();
                    check_run(&ab, &layouts, &format!("{ctx}, after the first merge"));
                    // memory traffic between the merges, as other partitions would cause
                    let scratch: Vec<Vec<u8>> = (0..64).map(|i| vec![0xFF; 16 + i]).collect();
                    let out = if order == 0 { merger.merge(&mut state, ab, c_run, hint) } else { merger.merge(&mut state, c_run, ab, hint) }.unwrap();
                    drop(scratch);
                    check_run(&out, &layouts, &format!("{ctx}, after the second merge"));
                    // read back: payloads in key order
                    let mut scan = out.init_scan_state();
                    let mut got: Vec<String> = Vec::new();
                    loop {
                        let mut out_batch = Batch::new([DataType::utf8(), DataType::utf8()], 16).unwrap();
                        out.scan_data(&mut scan, &data_layout, &mut out_batch).unwrap();
                        if out_batch.num_rows() == 0 {
                            break;
                        }
                        for r in 0..out_batch.num_rows() {
                            got.push(out_batch.arrays()[0].get_value(r).unwrap().to_string());
                        }
                    }
                    match hint {
                        None => assert!(got == all, "merged run is not the sorted union of its inputs ({ctx}): got {got:?}, expected {all:?}"),
                        Some(h) => {
                            let n = h.min(all.len());
                            assert!(got.len() >= n && got[..n] == all[..n], "merged run with a limit hint does not start with the first {n} rows of the sorted union ({ctx}): got {got:?}, expected a prefix of {all:?}");
                            assert!(got.windows(2).all(|w| w[0] <= w[1]), "merged run is not sorted ({ctx}): {got:?}");
                        }
                    }
                    cases += 1;
                }
            }
        }
    }
    assert!(cases == 7 * 2 * 2 * 2);
}
