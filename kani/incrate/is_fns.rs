// C05 (bounded stand-in, native): IS NULL / IS NOT NULL / IS [NOT] TRUE / IS [NOT] FALSE on real arrays in every layout
// (flat, dictionary-selected with reordering and repetition, constant, constant NULL, selected twice): the result for
// logical row i depends only on the logical value of row i ("the value does not depend on where the expression is
// evaluated" / on the array layout), and equals the SQL definition.
use super::*;
use crate::arrays::array::Array;
use crate::arrays::scalar::BorrowedScalarValue;
use crate::buffer::buffer_manager::DefaultBufferManager;
use crate::util::iter::TryFromExactSizeIterator;

//@fn functions/scalar/builtin/is.rs CheckNull<RETURN>::execute
//@fn functions/scalar/builtin/is.rs IsBool<NOT, BOOL>::execute

fn layouts() -> Vec<(String, Array)> {
    let base = vec![Some(true), Some(false), None, Some(false), Some(true), None];
    let mut out = Vec::new();
    out.push(("flat".to_string(), Array::try_from_iter(base.clone()).unwrap()));
    for sel in [vec![5usize, 4, 3, 2, 1, 0], vec![1, 1, 2, 0], vec![3], vec![2, 2, 4, 1, 0, 5, 5, 3]] {
        let mut a = Array::try_from_iter(base.clone()).unwrap();
        a.select(&DefaultBufferManager, sel.clone()).unwrap();
        out.push((format!("selected {sel:?}"), a));
    }
    // selected twice
    let mut a = Array::try_from_iter(base.clone()).unwrap();
    a.select(&DefaultBufferManager, vec![4usize, 2, 1, 0]).unwrap();
    a.select(&DefaultBufferManager, vec![3usize, 0, 1]).unwrap();
    out.push(("selected twice".to_string(), a));
    for v in [Some(true), Some(false)] {
        let a = Array::new_constant(&DefaultBufferManager, &BorrowedScalarValue::Boolean(v.unwrap()), 4).unwrap();
        out.push((format!("constant {v:?}"), a));
    }
    out.push(("constant NULL".to_string(), Array::new_null(&DefaultBufferManager, DataType::boolean(), 3).unwrap()));
    out
}

fn logical(arr: &Array) -> Vec<Option<bool>> {
    (0..arr.logical_len())
        .map(|i| {
            let v = arr.get_value(i).unwrap();
            match v {
                BorrowedScalarValue::Null => None,
                BorrowedScalarValue::Boolean(b) => Some(b),
                _ => panic!("unexpected value"),
            }
        })
        .collect()
}

fn run<F: ScalarFunction<State = ()>>(name: &str, def: impl Fn(Option<bool>) -> bool) {
    for (layout, arr) in layouts() {
        let vals = logical(&arr);
        let n = vals.len();
        let batch = Batch::from_arrays([arr]).unwrap();
        let mut out = Array::new(&DefaultBufferManager, DataType::boolean(), n).unwrap();
        F::execute(&(), &batch, &mut out).unwrap();
        let got = logical(&out);
        for i in 0..n {
            assert!(got[i] == Some(def(vals[i])), "{name} on {layout} input, row {i}: value {:?} gives {:?}, definition says {:?}", vals[i], got[i], Some(def(vals[i])));
        }
    }
}

#[test]
fn c05_is_functions__layout_independent_definition__nat() {
    run::<CheckNull<true>>("IS NULL", |v| v.is_none());
    run::<CheckNull<false>>("IS NOT NULL", |v| v.is_some());
    run::<IsBool<false, true>>("IS TRUE", |v| v == Some(true));
    run::<IsBool<true, true>>("IS NOT TRUE", |v| v != Some(true));
    run::<IsBool<false, false>>("IS FALSE", |v| v == Some(false));
    run::<IsBool<true, false>>("IS NOT FALSE", |v| v != Some(false));
}

include!("/verif/build/kani-gen/is_fns.playback.rs");
