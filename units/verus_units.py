"""Verus engine: templates /verif/verus/*.rs.in -> /verif/build/verus/<unit>.rs (functions extracted mechanically from
/repo on every run, closed rewrite list per extraction) -> `verus <file> --output-json --time`.

Template directives (each on its own line):
  //@unit name=<n> props=C03,C08 [tier=thorough] [pair=<kani harness>]
  //@trusted <free text>                         an assumption listed in trusted_base
  //@extract file=<repo-relative> item=<spec> [mode=body|fn|item]
        item spec:  `impl <regex> :: fn <name>`  |  `fn <name>`  |  `struct <Name>` | `enum <Name>`
        mode=body (default for fn): the statements between the outer braces;  mode=item: the whole item text
  //@rewrite s/<regex>/<replacement>/ count=<n> reason=<text>     applies to the preceding extract; must fire exactly n times
  //@end                                         end of the rewrite list; the (rewritten) text is spliced here

Obligations: every `fn` / `proof fn` in the generated file that is not `spec`, not `#[verifier::external_body]`.
Functions named `canary_*` MUST fail (vacuity guard: same precondition, `ensures false`).
"""
import hashlib
import json
import os
import re
import subprocess
import sys
import time

VERIF = os.path.dirname(os.path.dirname(os.path.abspath(__file__)))
REPO = os.environ.get('VERIF_REPO', '/repo')
OUT = os.environ.get('VERIF_VERUS_OUT') or os.path.join(VERIF, 'build', 'verus')
sys.path.insert(0, os.path.join(VERIF, 'extract'))
import rustx  # noqa: E402


class UnitProblem(Exception):
    pass


def parse_kv(s):
    d = {}
    for mo in re.finditer(r'(\w+)=("([^"]*)"|\S+)', s):
        d[mo.group(1)] = mo.group(3) if mo.group(3) is not None else mo.group(2)
    return d


def discover(prop, tier, only=None):
    units = []
    d = os.environ.get('VERIF_VERUS_DIR') or os.path.join(VERIF, 'verus')
    if not os.path.isdir(d):
        return units
    for fn in sorted(os.listdir(d)):
        if not fn.endswith('.rs.in'):
            continue
        path = os.path.join(d, fn)
        head = open(path).read(4000)
        mo = re.search(r'^//@unit (.*)$', head, re.M)
        if not mo:
            continue
        kv = parse_kv(mo.group(1))
        if prop not in kv.get('props', '').split(','):
            continue
        if kv.get('tier') == 'thorough' and tier != 'thorough':
            continue
        if only and only not in kv['name']:
            continue
        units.append(dict(name=kv['name'], path=path, props=kv['props'].split(','), pair=kv.get('pair')))
    return units


def find_item(src, spec):
    """returns (start, body_open, body_close) for the item spec"""
    spec = spec.strip()
    # critical section: "<fn spec> :: after /<regex>/ [#n]" -> from the end of the n-th match of <regex> inside the fn to the
    # end of the block that encloses it (the text a lock guard taken at that statement protects)
    mo = re.match(r'(.*?)\s*::\s*after\s+/(.*)/(?:\s*#(\d+))?$', spec)
    if mo:
        s0, o0, c0 = find_item(src, mo.group(1))
        nth = int(mo.group(3) or 0)
        ms = list(src.find_code(mo.group(2), o0, c0))
        if nth >= len(ms):
            raise rustx.ExtractError('statement /%s/ #%d not found in %s' % (mo.group(2), nth, mo.group(1)))
        start = ms[nth].end()
        j = start
        t, m = src.text, src.mask
        while j <= c0:
            if m[j]:
                if t[j] in '([{':
                    j = src.match_close(j)
                elif t[j] == '}':
                    # returned as (item start, "open" = start-1, close = j) so that mode=body yields text[start:j]
                    return ms[nth].start(), start - 1, j
            j += 1
        raise rustx.ExtractError('enclosing block of /%s/ #%d not closed' % (mo.group(2), nth))
    # nested block:  "<fn spec> :: block <keyword> [#n]"  -> the `{...}` that follows the n-th `<keyword>` token in the fn
    mo = re.match(r'(.*?)\s*::\s*block\s+(\w+)(?:\s*#(\d+))?$', spec)
    if mo:
        s0, o0, c0 = find_item(src, mo.group(1))
        nth = int(mo.group(3) or 0)
        k = 0
        for km in src.find_code(r'\b%s\b' % re.escape(mo.group(2)), o0, c0):
            j = km.end()
            while src.text[j].isspace():
                j += 1
            if src.text[j] != '{':
                continue
            if k == nth:
                return km.start(), j, src.match_close(j)
            k += 1
        raise rustx.ExtractError('block %s #%d not found in %s' % (mo.group(2), nth, mo.group(1)))
    mo = re.match(r'impl\s+(.*?)\s*::\s*fn\s+(\w+)$', spec)
    if mo:
        parts = src.impl_parts(r'impl\b[^{;]*?' + mo.group(1))
        return src.fn_in(mo.group(2), parts['body_open'], parts['body_close'])
    mo = re.match(r'fn\s+(\w+)$', spec)
    if mo:
        return src.fn_in(mo.group(1), 0, len(src.text))
    mo = re.match(r'(struct|enum)\s+(\w+)$', spec)
    if mo:
        return src.find_block_item(r'(?:pub(?:\([a-z]+\))?\s+)?%s\s+%s\b' % (mo.group(1), mo.group(2)))
    raise UnitProblem('bad item spec %r' % spec)


def generate(unit):
    text = open(unit['path']).read()
    lines = text.split('\n')
    out = []
    extracted = []
    rewrites = []
    trusted = []
    i = 0
    while i < len(lines):
        ln = lines[i]
        if ln.startswith('//@trusted '):
            trusted.append('%s: %s' % (unit['name'], ln[len('//@trusted '):].strip()))
            out.append(ln)
            i += 1
            continue
        if not ln.lstrip().startswith('//@extract '):
            out.append(ln)
            i += 1
            continue
        kv = parse_kv(ln.strip()[len('//@extract '):])
        rel = kv['file']
        path = os.path.join(REPO, rel)
        if not os.path.exists(path):
            raise UnitProblem('file missing: %s' % rel)
        src = rustx.Src(path)
        try:
            s, o, c = find_item(src, kv['item'])
        except rustx.ExtractError as e:
            raise UnitProblem('anchor lost: %s (%s)' % (kv['item'], e))
        mode = kv.get('mode', 'body')
        if mode == 'body':
            chunk = src.text[o + 1:c]
        elif mode == 'item':
            chunk = src.text[s:c + 1]
        else:
            raise UnitProblem('bad mode %r' % mode)
        if chunk not in src.text:
            raise UnitProblem('extracted text is not a substring of the source')
        sha = hashlib.sha256(chunk.encode()).hexdigest()[:16]
        extracted.append(dict(file=rel, item=kv['item'], sha=sha, mode=mode))
        # rewrites
        i += 1
        while i < len(lines) and not lines[i].lstrip().startswith('//@end'):
            r = lines[i].strip()
            if r.startswith('//@rewrite '):
                mo = re.match(r'//@rewrite s/(.*)/(.*)/ count=(\d+|\*) reason=(.*)$', r)
                if not mo:
                    raise UnitProblem('bad rewrite line: %s' % r)
                pat, rep, cnt, reason = mo.group(1), mo.group(2), mo.group(3), mo.group(4)
                chunk, n = re.subn(pat, rep.replace('\\n', '\n'), chunk, flags=re.S)
                if cnt != '*' and n != int(cnt):
                    raise UnitProblem('rewrite %r fired %d times, expected %s (in %s %s)' % (pat, n, cnt, rel, kv['item']))
                rewrites.append(dict(unit=unit['name'], item=kv['item'], regex=pat, replacement=rep, fired=n, reason=reason))
            elif r and not r.startswith('//'):
                raise UnitProblem('unexpected line inside extract block: %s' % r)
            i += 1
        if i >= len(lines):
            raise UnitProblem('missing //@end')
        out.append('// ---- begin extracted: %s :: %s (sha256/16 %s) ----' % (rel, kv['item'], sha))
        out.append(chunk)
        out.append('// ---- end extracted ----')
        i += 1
    os.makedirs(OUT, exist_ok=True)
    gen = os.path.join(OUT, unit['name'] + '.rs')
    open(gen, 'w').write('\n'.join(out))
    return gen, extracted, rewrites, trusted


FN_RE = re.compile(r'^[ \t]*((?:pub(?:\([a-z]+\))?\s+)?(?:open\s+|closed\s+)?(?:(?:proof|spec|exec)\s+)?(?:const\s+)?fn)\s+(\w+)', re.M)


def list_functions(gen_path):
    """[(name, kind, start_line, end_line, external)] for every fn with a body in the generated file.
    The end of a function is the first later line consisting of `}` at the indentation of its `fn` line (the ensures
    clauses may contain braces, so brace matching from the signature is not reliable)."""
    txt = open(gen_path).read()
    lines = txt.split('\n')
    res = []
    for idx, ln in enumerate(lines):
        mo = re.match(r'^([ \t]*)((?:pub(?:\([a-z]+\))?\s+)?(?:open\s+|closed\s+)?(?:(?:proof|spec|exec)\s+)?(?:const\s+)?fn)\s+(\w+)', ln)
        if not mo:
            continue
        indent, head, name = mo.group(1), mo.group(2), mo.group(3)
        kind = 'spec' if 'spec' in head else ('proof' if 'proof' in head else 'exec')
        end = None
        one_line = ln.rstrip().endswith('}') and '{' in ln
        if one_line:
            end = idx
        else:
            for j in range(idx + 1, len(lines)):
                if lines[j].rstrip() == indent + '}' or (lines[j].startswith(indent + '{ ') and lines[j].rstrip().endswith('}')):
                    end = j
                    break
                if lines[j].rstrip() == indent + ';':
                    break
        if end is None:
            continue
        k = idx - 1
        attrs = []
        while k >= 0 and (lines[k].strip().startswith('#[') or lines[k].strip().startswith('///')):
            attrs += re.findall(r'#\[verifier::(\w+)', lines[k])
            k -= 1
        external = any(a in ('external_body', 'external') for a in attrs)
        res.append(dict(name=name, kind=kind, start=idx + 1, end=end + 1, external=external))
    return res


def scan_assumptions(gen_path):
    txt = open(gen_path).read()
    found = []
    for k, ln in enumerate(txt.split('\n'), 1):
        s = ln.strip()
        if s.startswith('//'):
            continue
        for pat in ('assume(', 'admit(', 'external_body', 'assume_specification', '#[verifier::external', 'verifier::truncate'):
            if pat in s:
                found.append((k, pat, s[:140]))
    return found


def run_units(units, tier):
    results = []
    for u in units:
        t0 = time.time()
        res = dict(name=u['name'], obligations=[], problems=[], extracted=[], rewrites=[], trusted=[], pair=u.get('pair'))
        try:
            gen, extracted, rewrites, trusted = generate(u)
        except (UnitProblem, rustx.ExtractError) as e:
            res['problems'].append('extraction: %s' % e)
            results.append(res)
            continue
        res.update(generated=gen, extracted=extracted, rewrites=rewrites)
        cmd = ['verus', gen, '--output-json', '--time', '--multiple-errors', '20']
        try:
            p = subprocess.run(cmd, stdout=subprocess.PIPE, stderr=subprocess.PIPE, text=True, timeout=900)
        except subprocess.TimeoutExpired:
            res['problems'].append('verus timed out')
            results.append(res)
            continue
        res['cmd'] = ' '.join(cmd)
        # stdout = JSON (possibly preceded by notes); stderr = diagnostics
        js = None
        try:
            js = json.loads(p.stdout[p.stdout.index('{'):])
        except (ValueError, json.JSONDecodeError):
            pass
        fns = list_functions(gen)
        errors = []
        cur = None
        for ln in p.stderr.split('\n'):
            mo = re.match(r'(error|warning|note)(\[\w+\])?: (.*)$', ln)
            if mo:
                cur = dict(level=mo.group(1), msg=mo.group(3), lines=[], code=mo.group(2))
                if mo.group(1) == 'error':
                    errors.append(cur)
                continue
            mo = re.match(r'\s*--> (.*?):(\d+):(\d+)', ln)
            if mo and cur is not None:
                cur['lines'].append(int(mo.group(2)))
        vr = (js or {}).get('verification-results', {})
        if js is None or vr.get('encountered-vir-error') or ('verified' not in vr):
            msgs = [e['msg'] for e in errors[:4]]
            res['problems'].append('verus did not produce verification results (compile / unsupported construct): %s' % '; '.join(msgs))
            res['stderr'] = p.stderr[-3000:]
            results.append(res)
            continue
        smt_s = (js.get('times-ms', {}).get('smt', {}).get('total', 0)) / 1000.0
        total_s = (js.get('times-ms', {}).get('total', 0)) / 1000.0
        # map errors to functions
        failed = {}
        unmapped = []
        VERIF_MSG = ('postcondition not satisfied', 'precondition not satisfied', 'assertion failed', 'invariant not satisfied',
                     'loop invariant not', 'possible arithmetic underflow/overflow', 'possible division by zero', 'possible bit shift',
                     'decreases not satisfied', 'could not show termination', 'cannot show', 'recommendation not met',
                     'index out of bounds', 'unwrap', 'constructed value may fail to meet its declared type invariant',
                     'refinement', 'loop ensures not satisfied', 'loop ensures')
        for e in errors:
            if e['msg'].startswith('aborting due to'):
                continue
            if e.get('code') or not any(k in e['msg'] for k in VERIF_MSG):
                # a rustc / VIR error, not a failed proof obligation
                unmapped.append('compile error: ' + e['msg'])
                continue
            hit = None
            for ln in e['lines']:
                for f in fns:
                    if f['start'] <= ln <= f['end']:
                        hit = f['name']
                        break
                if hit:
                    break
            if hit:
                failed.setdefault(hit, []).append('%s (line %s)' % (e['msg'], e['lines'][:2]))
            else:
                unmapped.append(e['msg'])
        if 'rlimit' in p.stderr or 'Resource limit' in p.stderr:
            res['problems'].append('verus resource limit (rlimit) exceeded')
        hard_fail = False
        if unmapped:
            res['problems'].append('verus errors outside any function: %s' % '; '.join(unmapped[:3]))
            hard_fail = True
        if vr.get('verified', 0) == 0 and not failed:
            res['problems'].append('verus verified nothing')
            hard_fail = True
        if hard_fail:
            res['stderr'] = p.stderr[-3000:]
            results.append(res)
            continue
        n_ob = 0
        for f in fns:
            if f['kind'] == 'spec' or f['external'] or f['name'] == 'main':
                continue
            name = '%s::%s' % (u['name'], f['name'])
            if f['name'].startswith('canary_'):
                # must fail
                if f['name'] not in failed:
                    res['problems'].append('vacuity guard: %s verified, so the precondition it copies is contradictory' % f['name'])
                continue
            n_ob += 1
            if f['name'] in failed:
                res['obligations'].append(dict(name=name, status='failed', errors=failed[f['name']], kind=f['kind']))
            else:
                res['obligations'].append(dict(name=name, status='verified', kind=f['kind'], time_s=None))
        expected_verified = vr.get('verified', 0)
        res['verus_verified'] = expected_verified
        res['verus_errors'] = vr.get('errors', 0)
        res['smt_time_s'] = smt_s
        res['wall_s'] = round(time.time() - t0, 2)
        if res['obligations']:
            res['obligations'][0]['time_s'] = total_s
        if n_ob == 0:
            res['problems'].append('no obligations in generated file')
        # assumption scan -> trusted base
        tb = list(trusted)
        for (ln, pat, s) in scan_assumptions(gen):
            tb.append('%s: %s at generated line %d: %s' % (u['name'], pat, ln, s))
        res['trusted'] = tb
        results.append(res)
    return results
