// C08 U3 (bounded: strings <= 14 bytes, both inline (<= 12) and referenced (> 12) representations): the heap tie-break
// comparison used when two string sort-key prefixes are equal is the full byte-wise order of the two strings.
use super::*;

//@fn arrays/sort/heap_compare.rs compare_heap_values (Utf8 / Binary)
//@fn arrays/string.rs StringPtr::{new_inline, new_reference, as_bytes}

fn mk(buf: &[u8]) -> StringPtr {
    if buf.len() <= 12 { StringPtr::new_inline(buf) } else { StringPtr::new_reference(buf) }
}

#[kani::proof]
#[kani::unwind(16)]
fn c08_heap_compare__bytewise_order__bnd() {
    let abuf: [u8; 14] = kani::any();
    let bbuf: [u8; 14] = kani::any();
    let la: usize = kani::any();
    let lb: usize = kani::any();
    kani::assume(la <= 14 && lb <= 14);
    let a = &abuf[..la];
    let b = &bbuf[..lb];
    let pa = mk(a);
    let pb = mk(b);
    // specification: lexicographic byte order, shorter string first on a common prefix
    let mut ord = std::cmp::Ordering::Equal;
    let mut i = 0;
    while i < 14 {
        if ord == std::cmp::Ordering::Equal {
            if i < la && i < lb {
                if a[i] < b[i] {
                    ord = std::cmp::Ordering::Less
                } else if a[i] > b[i] {
                    ord = std::cmp::Ordering::Greater
                }
            } else if i >= la && i < lb {
                ord = std::cmp::Ordering::Less
            } else if i < la && i >= lb {
                ord = std::cmp::Ordering::Greater
            }
        }
        i += 1;
    }
    kani::cover!(la <= 12 && lb <= 12 && la != lb && ord != std::cmp::Ordering::Equal);
    kani::cover!(la > 12 && lb <= 12);
    let r = unsafe {
        compare_heap_values((&pa as *const StringPtr).cast(), (&pb as *const StringPtr).cast(), PhysicalType::Utf8)
    };
    match &r {
        Ok(o) => assert!(*o == ord, "heap tie-break differs from byte-wise string order"),
        Err(_) => assert!(false, "string comparison rejected"),
    }
    std::mem::forget(r);
}

include!("/verif/build/kani-gen/heap_compare.playback.rs");
