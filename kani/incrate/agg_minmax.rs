// C07 U1: MIN / MAX state algebra.  View = Option<value>; update/merge take the min (max) of the views.
use super::*;
use crate::verif_kani::with_put1;

//@fn functions/aggregate/builtin/minmax.rs impl AggregateState for MaxStatePrimitive<T> :: {update, merge, finalize}
//@fn functions/aggregate/builtin/minmax.rs impl AggregateState for MinStatePrimitive<T> :: {update, merge, finalize}

fn forget_ok(r: Result<()>) -> bool {
    let ok = r.is_ok();
    std::mem::forget(r);
    ok
}

fn vmax(a: Option<i64>, b: Option<i64>) -> Option<i64> {
    match (a, b) {
        (None, x) | (x, None) => x,
        (Some(x), Some(y)) => Some(if x < y { y } else { x }),
    }
}
fn vmin(a: Option<i64>, b: Option<i64>) -> Option<i64> {
    match (a, b) {
        (None, x) | (x, None) => x,
        (Some(x), Some(y)) => Some(if y < x { y } else { x }),
    }
}

macro_rules! minmax {
    ($name:ident, $State:ident, $field:ident, $spec:ident) => {
        #[kani::proof]
        fn $name() {
            let mut a = $State::<i64> { $field: kani::any(), valid: kani::any() };
            let mut b = $State::<i64> { $field: kani::any(), valid: kani::any() };
            let view = |s: &$State<i64>| if s.valid { Some(s.$field) } else { None };
            let (va, vb) = (view(&a), view(&b));
            let x: i64 = kani::any();
            kani::cover!(va.is_none() && vb.is_some());
            kani::cover!(va.is_some() && vb.is_some());
            assert!(forget_ok(a.update(&(), &x)));
            assert!(view(&a) == $spec(va, Some(x)), "update is not the min/max of the view and the input");
            assert!(forget_ok(a.merge(&(), &mut b)));
            assert!(view(&a) == $spec($spec(va, Some(x)), vb), "merge is not the min/max of the two views");
            let expect = view(&a);
            let mut ok = false;
            let (out, valid) = with_put1!(i64, 0, |buf| ok = forget_ok(a.finalize(&(), buf)));
            assert!(ok && valid == expect.is_some() && (expect.is_none() || Some(out) == expect));
            // merging into an empty state takes the other view
            let mut e = $State::<i64>::default();
            assert!(!e.valid, "default state must be empty (NULL result on empty input)");
            let mut c = $State::<i64> { $field: kani::any(), valid: kani::any() };
            let vc = view(&c);
            assert!(forget_ok(e.merge(&(), &mut c)));
            assert!(view(&e) == vc);
        }
    };
}
minmax!(c07_max_state__def, MaxStatePrimitive, max, vmax);
minmax!(c07_min_state__def, MinStatePrimitive, min, vmin);

include!("/verif/build/kani-gen/agg_minmax.playback.rs");
