// C07 (bounded stand-in, native): the aggregate hash table against the DEFINITION of GROUP BY, on the real insert / merge /
// finalize code: rows (key in {NULL, 0..K}, value) are split over two partial tables in every way a prefix can be cut,
// inserted in batches of the row capacity (2, 3 or 16, so tables grow, resize and the merge scans the source table in
// several chunks), merged, finalized; the result must have exactly one row per distinct key (NULLs form one group)
// carrying SUM of precisely that group's rows -- whatever the split and the capacity.
use super::*;
use crate::arrays::array::Array;
use crate::arrays::array::physical_type::{Addressable, MutableScalarStorage, PhysicalI32, PhysicalI64, PhysicalU64, ScalarStorage};
use crate::arrays::batch::Batch;
use crate::arrays::compute::hash::hash_many_arrays;
use crate::arrays::datatype::DataType;
use crate::buffer::buffer_manager::DefaultBufferManager;
use crate::expr;
use crate::expr::physical::PhysicalAggregateExpression;
use crate::functions::aggregate::builtin::sum::FUNCTION_SET_SUM;
use crate::util::iter::TryFromExactSizeIterator;

//@fn execution/operators/hash_aggregate/hash_table/base.rs BaseHashTable::{insert_with_hashes, merge_from, num_groups} + MergeScanState::scan + GroupMatcher
//@fn arrays/row/aggregate_collection.rs finalize_groups (as used by the table)

fn hash_and_insert(table: &mut BaseHashTable, state: &mut BaseHashTableInsertState, groups: &Batch, inputs: &Batch) {
    let mut hashes_arr = Array::new(&DefaultBufferManager, DataType::uint64(), groups.num_rows).unwrap();
    let hashes = PhysicalU64::get_addressable_mut(&mut hashes_arr.data).unwrap().slice;
    hash_many_arrays(&groups.arrays, 0..groups.num_rows, hashes).unwrap();
    table.insert_with_hashes(state, &[0], groups, inputs, &hashes_arr).unwrap();
}

fn results(table: &BaseHashTable) -> Vec<(Option<i32>, i64)> {
    let n = table.num_groups();
    let mut out_groups = Batch::new(table.layout.groups.types.clone(), n.max(1)).unwrap();
    let mut out_results = Batch::new(table.layout.aggregates.iter().map(|agg| agg.function.state.return_type.clone()), n.max(1)).unwrap();
    let mut row_ptrs: Vec<_> = table.data.row_mut_ptr_iter().collect();
    assert!(row_ptrs.len() == n, "num_groups() disagrees with the stored rows");
    unsafe { table.data.finalize_groups(&mut row_ptrs, &mut out_groups.arrays, &mut out_results.arrays).unwrap() };
    let key_arr = &out_groups.arrays[0];
    let keys = PhysicalI32::get_addressable(&key_arr.data).unwrap();
    let sums = PhysicalI64::get_addressable(&out_results.arrays[0].data).unwrap();
    let mut got: Vec<(Option<i32>, i64)> = (0..n)
        .map(|i| (if key_arr.validity.is_valid(i) { Some(*keys.get(i).unwrap()) } else { None }, *sums.get(i).unwrap()))
        .collect();
    got.sort();
    got
}

fn insert_rows(table: &mut BaseHashTable, state: &mut BaseHashTableInsertState, rows: &[(Option<i32>, i64)], cap: usize) {
    for chunk in rows.chunks(cap) {
        let groups = Batch::from_arrays([Array::try_from_iter(chunk.iter().map(|r| r.0).collect::<Vec<_>>()).unwrap()]).unwrap();
        let inputs = Batch::from_arrays([Array::try_from_iter(chunk.iter().map(|r| r.1).collect::<Vec<_>>()).unwrap()]).unwrap();
        hash_and_insert(table, state, &groups, &inputs);
    }
}

#[test]
fn c07_agg_hash_table__definition_of_group_by__nat() {
    let sum_agg = expr::bind_aggregate_function(&FUNCTION_SET_SUM, vec![expr::column((0, 1), DataType::int64())]).unwrap();
    let aggs = [PhysicalAggregateExpression::new(sum_agg, [(1, DataType::int64())])];
    let layout = AggregateLayout::try_new([DataType::int32(), DataType::uint64()], aggs).unwrap();

    // data sets: key patterns with NULLs at different positions, more groups than the row capacity
    let mut datasets: Vec<Vec<(Option<i32>, i64)>> = Vec::new();
    for n in [0usize, 1, 5, 9, 40] {
        for null_every in [0usize, 1, 3, 7] {
            for modulus in [1i32, 3, 50] {
                let rows: Vec<(Option<i32>, i64)> = (0..n)
                    .map(|i| {
                        let key = if null_every != 0 && i % null_every == 0 { None } else { Some(i as i32 % modulus) };
                        (key, (i as i64 + 1) * if i % 2 == 0 { 1 } else { -3 })
                    })
                    .collect();
                datasets.push(rows);
            }
        }
    }
    let mut checked = 0usize;
    for rows in &datasets {
        // definition
        let mut expect: std::collections::BTreeMap<Option<i32>, i64> = std::collections::BTreeMap::new();
        for (k, v) in rows {
            *expect.entry(*k).or_insert(0) += *v;
        }
        let mut expect: Vec<(Option<i32>, i64)> = expect.into_iter().collect();
        expect.sort();
        for cap in [2usize, 3, 16] {
            let cuts: Vec<usize> = if rows.len() <= 9 { (0..=rows.len()).collect() } else { vec![0, 1, 13, 20, 39, rows.len()] };
            for cut in cuts {
                let mut t1 = BaseHashTable::try_new(layout.clone(), cap).unwrap();
                let mut s1 = t1.init_insert_state();
                insert_rows(&mut t1, &mut s1, &rows[..cut], cap);
                let mut t2 = BaseHashTable::try_new(layout.clone(), cap).unwrap();
                let mut s2 = t2.init_insert_state();
                insert_rows(&mut t2, &mut s2, &rows[cut..], cap);
                t1.merge_from(&mut s1, [0], &mut t2).unwrap();
                let got = results(&t1);
                assert!(got == expect, "{} rows split {cut} / {} over two partial tables (row capacity {cap}): groups {:?}, definition gives {:?}", rows.len(), rows.len() - cut, got, expect);
                checked += 1;
            }
        }
    }
    assert!(checked > 500);
}

include!("/verif/build/kani-gen/agg_hash_table.playback.rs");
