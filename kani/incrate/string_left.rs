// C20 U3 (bounded stand-in, native): left(s, n) on every string of <= 3 characters from {a, é, 漢, 😀} (1-4 byte code points)
// and n in {i64::MIN, -4..=4, i64::MAX}: no panic, and the result is the first n characters (n >= 0) / all but the last |n|
// characters (n < 0), as documented.
use super::*;

//@fn functions/scalar/builtin/string/left.rs left

pub(crate) fn strings3() -> Vec<String> {
    let alphabet = ['a', 'é', '漢', '😀'];
    let mut all = vec![String::new()];
    let mut frontier = vec![String::new()];
    for _ in 0..3 {
        let mut next = Vec::new();
        for w in &frontier {
            for c in alphabet {
                let mut x = w.clone();
                x.push(c);
                next.push(x);
            }
        }
        all.extend(next.iter().cloned());
        frontier = next;
    }
    all
}
pub(crate) fn counts() -> Vec<i64> {
    let mut v = vec![i64::MIN, i64::MIN + 1, i64::MAX, i64::MAX - 1];
    v.extend(-4..=4);
    v
}

#[test]
fn c20_left__char_semantics__nat() {
    for s in strings3() {
        let chars: Vec<char> = s.chars().collect();
        for n in counts() {
            let got = std::panic::catch_unwind(|| left(&s, n).to_string());
            let len = chars.len() as i128;
            let take = if n >= 0 { (n as i128).min(len) } else { (len + n as i128).max(0) };
            let expected: String = chars[..take as usize].iter().collect();
            match got {
                Ok(g) => assert!(g == expected, "left({s:?}, {n}) = {g:?}, expected {expected:?}"),
                Err(_) => panic!("left({s:?}, {n}) panicked"),
            }
        }
    }
}

include!("/verif/build/kani-gen/string_left.playback.rs");
