// C15 U1 (bounded stand-in, native): `glaredb_parser::parser::parse` (tokenizer + parser) is total on
//  (a) every string of <= 4 characters over a 22-character alphabet (quotes, escapes, comment starters, digits,
//      exponent, multi-byte characters incl. non-ASCII numeric ones, whitespace, operators), and
//  (b) every sequence of <= 5 tokens over a 24-token SQL vocabulary:
// it returns Ok or Err -- no panic, no slice inside a character, no hang (each group runs in a child process that is
// killed when it makes no progress for 60 s).
use super::*;

//@fn parser.rs parse (Tokenizer::tokenize + Parser::parse_statements)

/// Runs one enumeration group in a CHILD PROCESS (this test binary re-invoked with VERIF_PARSE_GROUP set) and watches its
/// progress lines: a hang is a stall of 60 s without progress (a single parse of a <= 40 byte input takes microseconds,
/// so load on the machine cannot cause a false alarm), and the child is KILLED on a stall so that a tokenizer that never
/// advances cannot exhaust memory.  A panic in the child ends it with a non-zero status and its message is passed on.
fn run_group_in_child(test_name: &str, group: &str) {
    use std::io::BufRead;
    let exe = std::env::current_exe().expect("test binary path");
    let mut child = std::process::Command::new(exe)
        .args(["--exact", test_name, "--nocapture", "--test-threads", "1"])
        .env("VERIF_PARSE_GROUP", group)
        .stdout(std::process::Stdio::piped())
        .stderr(std::process::Stdio::piped())
        .spawn()
        .expect("spawn child");
    let stdout = child.stdout.take().unwrap();
    let stderr = child.stderr.take().unwrap();
    let (tx, rx) = std::sync::mpsc::channel::<Option<String>>();
    let tx2 = tx.clone();
    std::thread::spawn(move || {
        for line in std::io::BufReader::new(stdout).lines().map_while(|l| l.ok()) {
            let _ = tx.send(Some(line));
        }
        let _ = tx.send(None);
    });
    let err_lines = std::sync::Arc::new(std::sync::Mutex::new(Vec::<String>::new()));
    let err2 = err_lines.clone();
    std::thread::spawn(move || {
        for line in std::io::BufReader::new(stderr).lines().map_while(|l| l.ok()) {
            let mut g = err2.lock().unwrap();
            if g.len() < 40 {
                g.push(line);
            }
        }
        drop(tx2);
    });
    let mut last = String::new();
    loop {
        match rx.recv_timeout(std::time::Duration::from_secs(60)) {
            Ok(Some(line)) => {
                if line.contains("VERIF-PROGRESS") {
                    last = line;
                }
            }
            Ok(None) => break,
            Err(_) => {
                let _ = child.kill();
                let _ = child.wait();
                panic!("parse did not return: no progress for 60 s in group {group} (last progress: {last})");
            }
        }
    }
    let status = child.wait().expect("wait child");
    if !status.success() {
        let msg = err_lines.lock().unwrap().iter().filter(|l| l.contains("parse panicked") || l.contains("panicked at")).cloned().collect::<Vec<_>>().join(" | ");
        panic!("parse panicked on an input of group {group}: {msg}");
    }
}

fn child_group() -> Option<String> {
    std::env::var("VERIF_PARSE_GROUP").ok()
}

#[test]
fn c15_parse__total_on_short_strings__nat() {
    let alphabet: Vec<char> = "a1 '\"-/*.eé$;\\\n:x(+😀²٣".chars().collect();
    let prefixes = ["", "select ", "select '", "select 1 from t where a like "];
    match child_group() {
        None => {
            for pi in 0..prefixes.len() {
                run_group_in_child("parser::verif_kani::c15_parse__total_on_short_strings__nat", &format!("chars/prefix#{pi}"));
            }
        }
        Some(group) => {
            let Some(pi) = group.strip_prefix("chars/prefix#").and_then(|x| x.parse::<usize>().ok()) else { return };
            let prefix = prefixes[pi];
            let n = alphabet.len();
            let mut idx = [0usize; 4];
            let mut done = 0usize;
            for len in 0..=4usize {
                let total = n.pow(len as u32);
                for mut k in 0..total {
                    for slot in idx.iter_mut().take(len) {
                        *slot = k % n;
                        k /= n;
                    }
                    let mut s = prefix.to_string();
                    for &i in idx.iter().take(len) {
                        s.push(alphabet[i]);
                    }
                    if done % 2000 == 0 {
                        println!("VERIF-PROGRESS {done} next input {s:?}");
                    }
                    done += 1;
                    let r = std::panic::catch_unwind(|| {
                        let _ = parse(&s);
                    });
                    assert!(r.is_ok(), "parse panicked on {s:?}");
                }
            }
        }
    }
}

#[test]
fn c15_parse__total_on_token_sequences__nat() {
    let vocab = [
        "select", "from", "where", "(", ")", ",", "1", "a", "*", "and", "not", "-", "'x'", "as", "join", "on", "group by", "order by",
        "limit", "null", "case", "::", ".", "=",
    ];
    match child_group() {
        None => {
            for first in 0..vocab.len() {
                run_group_in_child("parser::verif_kani::c15_parse__total_on_token_sequences__nat", &format!("tokens/first#{first}"));
            }
        }
        Some(group) => {
            let Some(first) = group.strip_prefix("tokens/first#").and_then(|x| x.parse::<usize>().ok()) else { return };
            let n = vocab.len();
            let mut done = 0usize;
            for len in 0..=4usize {
                let total = n.pow(len as u32);
                for mut k in 0..total {
                    let mut s = String::from(vocab[first]);
                    for _ in 0..len {
                        s.push(' ');
                        s.push_str(vocab[k % n]);
                        k /= n;
                    }
                    if done % 2000 == 0 {
                        println!("VERIF-PROGRESS {done} next input {s:?}");
                    }
                    done += 1;
                    let r = std::panic::catch_unwind(|| {
                        let _ = parse(&s);
                    });
                    assert!(r.is_ok(), "parse panicked on {s:?}");
                }
            }
        }
    }
}

include!("/verif/build/kani-gen/parser.playback.rs");
