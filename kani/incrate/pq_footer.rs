// C19 U6 (bounded stand-in, native; NOT a proof): `decode_metadata` -- Thrift footer decoding, schema reconstruction
// (`schema_from_thrift`), row-group / column-chunk conversion and statistics decoding -- on damaged footers.  One small
// valid footer (a root group with an INT32 and an optional BYTE_ARRAY / UTF8 column, one row group with statistics) is
// damaged in every way of a stated finite family:
//   every truncation, and every single-byte substitution by 0x00, 0x01, 0x7f, 0x80, 0xff, (original XOR 0x01),
//   (original XOR 0x10), (original + 1)
// `decode_metadata` must return Ok or Err on each: no panic (slice index, `unwrap`, `unimplemented!`, arithmetic
// overflow, capacity overflow from a lying list length).
use super::*;
use crate::format;
use thrift::protocol::TCompactOutputProtocol;

//@fn metadata/loader.rs decode_metadata (+ thrift.rs reader, schema/types.rs schema_from_thrift, metadata RowGroupMetaData::from_thrift, statistics::from_thrift)
//@fn metadata/loader.rs MetaDataLoader::load_from_file
//@fn metadata/statistics.rs from_thrift

fn valid_footer() -> Vec<u8> {
    let schema = vec![
        format::SchemaElement::new(None, None, None, "schema".to_string(), Some(2), None, None, None, None, None),
        format::SchemaElement::new(Some(format::Type::INT32), None, Some(format::FieldRepetitionType::REQUIRED), "a".to_string(), None, None, None, None, None, None),
        format::SchemaElement::new(
            Some(format::Type::BYTE_ARRAY),
            None,
            Some(format::FieldRepetitionType::OPTIONAL),
            "b".to_string(),
            None,
            Some(format::ConvertedType::UTF8),
            None,
            None,
            None,
            None,
        ),
    ];
    let stats_a = format::Statistics {
        max: None,
        min: None,
        null_count: Some(0),
        distinct_count: None,
        max_value: Some(9i32.to_le_bytes().to_vec()),
        min_value: Some(1i32.to_le_bytes().to_vec()),
        is_max_value_exact: Some(true),
        is_min_value_exact: Some(true),
    };
    let stats_b = format::Statistics {
        max: Some(b"zz".to_vec()),
        min: Some(b"aa".to_vec()),
        null_count: Some(1),
        distinct_count: Some(2),
        max_value: None,
        min_value: None,
        is_max_value_exact: None,
        is_min_value_exact: None,
    };
    let col = |ty: format::Type, name: &str, stats: format::Statistics, off: i64| {
        format::ColumnChunk::new(
            None,
            off,
            Some(format::ColumnMetaData::new(
                ty,
                vec![format::Encoding::PLAIN, format::Encoding::RLE],
                vec![name.to_string()],
                format::CompressionCodec::UNCOMPRESSED,
                3,
                40,
                40,
                None,
                off,
                None,
                None,
                Some(stats),
                None,
                None,
                None,
                None,
                None,
            )),
            None,
            None,
            None,
            None,
            None,
            None,
        )
    };
    let rg = format::RowGroup::new(
        vec![col(format::Type::INT32, "a", stats_a, 4), col(format::Type::BYTE_ARRAY, "b", stats_b, 44)],
        80,
        3,
        None,
        Some(4),
        Some(80),
        Some(0),
    );
    let meta = format::FileMetaData {
        version: 2,
        schema,
        num_rows: 3,
        row_groups: vec![rg],
        key_value_metadata: Some(vec![format::KeyValue::new("k".to_string(), Some("v".to_string()))]),
        created_by: Some("verif".to_string()),
        column_orders: Some(vec![
            format::ColumnOrder::TYPEORDER(format::TypeDefinedOrder {}),
            format::ColumnOrder::TYPEORDER(format::TypeDefinedOrder {}),
        ]),
        encryption_algorithm: None,
        footer_signing_key_metadata: None,
    };
    let mut out = Vec::new();
    {
        let mut prot = TCompactOutputProtocol::new(&mut out);
        meta.write_to_out_protocol(&mut prot).unwrap();
    }
    out
}

#[test]
fn c19_footer__damaged_metadata_ok_or_err_never_panic__nat() {
    let footer = valid_footer();
    let ok = decode_metadata(&footer);
    match &ok {
        Ok(m) => assert!(m.row_groups.len() == 1 && m.file_metadata.schema_descr.num_columns() == 2, "valid footer decoded wrongly"),
        Err(e) => panic!("valid footer rejected: {e}"),
    }
    let mut damaged: Vec<(String, Vec<u8>)> = Vec::new();
    for cut in 0..footer.len() {
        damaged.push((format!("truncated to {cut} bytes"), footer[..cut].to_vec()));
    }
    for pos in 0..footer.len() {
        for sub in [0x00u8, 0x01, 0x7f, 0x80, 0xff, footer[pos] ^ 0x01, footer[pos] ^ 0x10, footer[pos].wrapping_add(1)] {
            if sub != footer[pos] {
                let mut c = footer.clone();
                c[pos] = sub;
                damaged.push((format!("byte {pos} {:#04x} -> {sub:#04x}", footer[pos]), c));
            }
        }
    }
    let mut cases = 0usize;
    for (what, bytes) in damaged {
        let b = bytes.clone();
        let res = std::panic::catch_unwind(move || decode_metadata(&b).is_ok());
        assert!(res.is_ok(), "footer decoding panics on a damaged footer ({what}; footer of {} bytes)", footer.len());
        cases += 1;
    }
    assert!(cases > 800);
}
// C19 (bounded stand-in, native; NOT a proof): the file tail `<metadata> <u32 metadata length> PAR1` lies about the
// metadata length.  `MetaDataLoader::load_from_file` on a small valid file whose length field is replaced by each of
// 0, 1, real - 1, real, real + 1, (bytes before the tail), (bytes before the tail) + 1, file size, 2^20, 2^31, u32::MAX
// (with and without leading data pages' worth of padding) returns Ok or Err, does not panic, and does not allocate from
// the length field alone: for the announced lengths of 2^31 and 2^32 - 1 the resident-memory high-water mark of the
// process grows by less than 768 MiB (a zero-filled buffer of the announced size would be visible).
fn vm_hwm_kib() -> Option<u64> {
    let s = std::fs::read_to_string("/proc/self/status").ok()?;
    let l = s.lines().find(|l| l.starts_with("VmHWM:"))?;
    l.split_whitespace().nth(1)?.parse().ok()
}

/// a seekable in-memory file (the crate's MemoryFileHandle does not support seek); a seek before the start of the file
/// fails like lseek(2) does
#[derive(Debug)]
struct SeekableMem {
    data: Vec<u8>,
    pos: u64,
}
impl glaredb_core::runtime::filesystem::FileHandle for SeekableMem {
    fn path(&self) -> &str {
        "mem.parquet"
    }
    fn size(&self) -> u64 {
        self.data.len() as u64
    }
    fn poll_read(&mut self, _cx: &mut std::task::Context, buf: &mut [u8]) -> std::task::Poll<Result<usize>> {
        let start = (self.pos as usize).min(self.data.len());
        let n = buf.len().min(self.data.len() - start);
        buf[..n].copy_from_slice(&self.data[start..start + n]);
        self.pos += n as u64;
        std::task::Poll::Ready(Ok(n))
    }
    fn poll_write(&mut self, _cx: &mut std::task::Context, _buf: &[u8]) -> std::task::Poll<Result<usize>> {
        std::task::Poll::Ready(Err(DbError::new("read-only")))
    }
    fn poll_seek(&mut self, _cx: &mut std::task::Context, seek: std::io::SeekFrom) -> std::task::Poll<Result<()>> {
        let target: i128 = match seek {
            std::io::SeekFrom::Start(p) => p as i128,
            std::io::SeekFrom::End(d) => self.data.len() as i128 + d as i128,
            std::io::SeekFrom::Current(d) => self.pos as i128 + d as i128,
        };
        if target < 0 {
            return std::task::Poll::Ready(Err(DbError::new("seek before the start of the file")));
        }
        self.pos = target as u64;
        std::task::Poll::Ready(Ok(()))
    }
    fn poll_flush(&mut self, _cx: &mut std::task::Context) -> std::task::Poll<Result<()>> {
        std::task::Poll::Ready(Ok(()))
    }
}

fn block_on_ready<F: std::future::Future>(fut: F) -> F::Output {
    let mut fut = std::pin::pin!(fut);
    let mut polls = 0;
    loop {
        match fut.as_mut().poll(&mut glaredb_core::util::task::noop_context()) {
            std::task::Poll::Ready(v) => return v,
            std::task::Poll::Pending => {
                polls += 1;
                assert!(polls < 10_000, "future on the memory file never completes");
            }
        }
    }
}

#[test]
fn c19_footer__lying_metadata_length_ok_or_err_bounded_allocation__nat() {
    let footer = valid_footer();
    let real = footer.len() as u64;
    let mut cases = 0usize;
    for pad in [0usize, 4, 64] {
        let before_tail = (4 + pad + footer.len()) as u64;
        let size = before_tail + 8;
        for claimed in [0u64, 1, real - 1, real, real + 1, before_tail, before_tail + 1, size, 1 << 20, 1 << 31, u32::MAX as u64] {
            let mut file = b"PAR1".to_vec();
            file.extend(std::iter::repeat(0u8).take(pad));
            file.extend_from_slice(&footer);
            file.extend_from_slice(&(claimed as u32).to_le_bytes());
            file.extend_from_slice(b"PAR1");
            let hwm_before = vm_hwm_kib();
            let bytes = file.clone();
            let res = std::panic::catch_unwind(move || {
                let mut f = AnyFile::from_file(SeekableMem { data: bytes, pos: 0 });
                block_on_ready(MetaDataLoader::new().load_from_file(&mut f)).map(|m| m.row_groups.len()).map_err(|e| e.to_string())
            });
            let what = format!("file of {} bytes (metadata of {real} bytes) announcing a metadata length of {claimed}", file.len());
            match res {
                Err(p) => {
                    let msg = p.downcast_ref::<String>().cloned().or_else(|| p.downcast_ref::<&str>().map(|s| s.to_string())).unwrap_or_default();
                    panic!("loading the Parquet footer panics on a {what}: {}", msg.lines().next().unwrap_or(""));
                }
                Ok(Ok(n)) => assert!(claimed == real && n == 1 || claimed != real, "valid file decoded wrongly"),
                Ok(Err(e)) => assert!(claimed != real, "the valid file ({what}) was rejected: {}", e.lines().next().unwrap_or("")),
            }
            // only where the announced length is far above anything else this test binary allocates (other tests run
            // in parallel threads of the same process)
            if let (true, Some(a), Some(b)) = (claimed >= 1 << 30, hwm_before, vm_hwm_kib()) {
                assert!(
                    b.saturating_sub(a) < 768 * 1024,
                    "loading the Parquet footer of a {what} allocated {} MiB: the buffer is sized by the length field, not by the file",
                    (b - a) / 1024
                );
            }
            cases += 1;
        }
    }
    assert!(cases == 33);
}

// C19 (bounded stand-in, native; NOT a proof): column statistics whose min / max byte strings have the wrong length.
// `statistics::from_thrift` converts the PLAIN-encoded bounds of a footer by slicing: for every physical type and every
// pair of min / max lengths 0..=13 (new `min_value` / `max_value` fields and the deprecated `min` / `max` fields, with
// and without a null count) it must return Ok or Err, never panic (slice index, `unwrap` on a failed array conversion,
// `assert_eq!` on the INT96 length).
#[test]
fn c19_statistics__wrong_length_bounds_ok_or_err_never_panic__nat() {
    use crate::basic::Type;
    let types = [Type::BOOLEAN, Type::INT32, Type::INT64, Type::INT96, Type::FLOAT, Type::DOUBLE, Type::BYTE_ARRAY, Type::FIXED_LEN_BYTE_ARRAY];
    let mut cases = 0usize;
    let mut oks = 0usize;
    for t in types {
        for min_len in 0..=13usize {
            for max_len in 0..=13usize {
                for deprecated in [false, true] {
                    let bytes = |n: usize| Some((0..n as u8).map(|b| b.wrapping_mul(37) ^ 0x5a).collect::<Vec<u8>>());
                    let stats = format::Statistics {
                        max: if deprecated { bytes(max_len) } else { None },
                        min: if deprecated { bytes(min_len) } else { None },
                        null_count: Some(1),
                        distinct_count: None,
                        max_value: if deprecated { None } else { bytes(max_len) },
                        min_value: if deprecated { None } else { bytes(min_len) },
                        is_max_value_exact: Some(true),
                        is_min_value_exact: Some(false),
                    };
                    let res = std::panic::catch_unwind(move || crate::metadata::statistics::from_thrift(t, Some(stats)).is_ok());
                    match res {
                        Ok(ok) => oks += ok as usize,
                        Err(p) => {
                            let msg = p.downcast_ref::<String>().cloned().or_else(|| p.downcast_ref::<&str>().map(|s| s.to_string())).unwrap_or_default();
                            panic!(
                                "decoding column statistics panics: {t:?} column with a min of {min_len} bytes and a max of {max_len} bytes ({} fields): {}",
                                if deprecated { "deprecated min / max" } else { "min_value / max_value" },
                                msg.lines().next().unwrap_or("")
                            );
                        }
                    }
                    cases += 1;
                }
            }
        }
    }
    assert!(cases == 8 * 14 * 14 * 2);
    assert!(oks > 400, "only {oks} statistics of the family decode: the family does not exercise the conversions");
}

include!("/verif/build/kani-gen/pq_footer.playback.rs");
