// C20 U2 (bounded stand-in, native): the general LIKE path (pattern -> regex -> is_match) agrees with LIKE's definition
// for every pattern of <= 4 characters from {a, b, %, _, \, .} and every string of <= 3 characters from {a, b, \, newline, .}.
// Executed natively on the real `like_pattern_to_regex` and the real regex crate (outside CBMC's reach).
use super::*;

//@fn functions/scalar/builtin/string/like.rs like_pattern_to_regex (+ regex::Regex::is_match as used by Like::execute)

fn like_spec(s: &[char], p: &[char]) -> bool {
    if p.is_empty() {
        return s.is_empty();
    }
    match p[0] {
        '%' => like_spec(s, &p[1..]) || (!s.is_empty() && like_spec(&s[1..], p)),
        '_' => !s.is_empty() && like_spec(&s[1..], &p[1..]),
        '\\' => {
            if p.len() > 1 {
                !s.is_empty() && s[0] == p[1] && like_spec(&s[1..], &p[2..])
            } else {
                s.len() == 1 && s[0] == '\\'
            }
        }
        c => !s.is_empty() && s[0] == c && like_spec(&s[1..], &p[1..]),
    }
}

fn enumerate(alphabet: &[char], max_len: usize) -> Vec<Vec<char>> {
    let mut all: Vec<Vec<char>> = vec![vec![]];
    let mut frontier: Vec<Vec<char>> = vec![vec![]];
    for _ in 0..max_len {
        let mut next = Vec::new();
        for w in &frontier {
            for &c in alphabet {
                let mut x = w.clone();
                x.push(c);
                next.push(x);
            }
        }
        all.extend(next.iter().cloned());
        frontier = next;
    }
    all
}

#[test]
fn c20_like_regex__matches_definition__nat() {
    // includes a multi-byte character and regex metacharacters
    let pats = enumerate(&['a', 'é', '%', '_', '\\', '.'], 4);
    let strs = enumerate(&['a', 'é', '\\', '\n', '.'], 3);
    let mut buf = String::new();
    for p in &pats {
        let pstr: String = p.iter().collect();
        let re = like_pattern_to_regex(&mut buf, &pstr, Some('\\')).expect("every LIKE pattern must translate to a valid regex");
        for s in &strs {
            let sstr: String = s.iter().collect();
            let expected = like_spec(s, p);
            let got = re.is_match(&sstr);
            assert!(got == expected, "{sstr:?} LIKE {pstr:?}: definition says {expected}, the regex translation says {got}");
        }
    }
}

include!("/verif/build/kani-gen/string_like.playback.rs");
