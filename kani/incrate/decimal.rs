// C13 U3: DecimalType::validate_precision  --  Ok  <=>  |value| < 10^precision  (precision <= MAX_PRECISION)
use super::*;
use crate::verif_kani::{stub_backtrace_capture, stub_format, POW10};

//@fn arrays/scalar/decimal.rs DecimalType::validate_precision (Decimal64Type, Decimal128Type)

macro_rules! validate_precision {
    ($name:ident, $min:ident, $D:ty, $t:ty) => {
        #[kani::proof]
        #[kani::stub(std::fmt::format, stub_format)]
        #[kani::stub(std::backtrace::Backtrace::capture, stub_backtrace_capture)]
        fn $name() {
            let v: $t = kani::any();
            let p: u8 = kani::any();
            kani::assume(v != <$t>::MIN);
            kani::cover!(p >= 1 && p <= <$D>::MAX_PRECISION);
            kani::cover!(p > <$D>::MAX_PRECISION);
            let r = <$D>::validate_precision(v, p);
            let ok = r.is_ok();
            std::mem::forget(r);
            if p > <$D>::MAX_PRECISION {
                assert!(!ok, "precision above the type's maximum accepted");
            } else {
                let fits = (v as i128).unsigned_abs() < POW10[p as usize] as u128;
                assert!(ok == fits, "validate_precision disagrees with |value| < 10^precision");
            }
        }
        // the most negative value has more digits than any precision allows: must be an error, not a trap
        #[kani::proof]
        #[kani::stub(std::fmt::format, stub_format)]
        #[kani::stub(std::backtrace::Backtrace::capture, stub_backtrace_capture)]
        fn $min() {
            let p: u8 = kani::any();
            kani::cover!(true);
            let r = <$D>::validate_precision(<$t>::MIN, p);
            let ok = r.is_ok();
            std::mem::forget(r);
            assert!(!ok, "MIN accepted");
        }
    };
}
validate_precision!(c13c15_validate_precision_d64__def, c13c15_validate_precision_d64__min_no_trap, Decimal64Type, i64);
validate_precision!(c13c15_validate_precision_d128__def, c13c15_validate_precision_d128__min_no_trap, Decimal128Type, i128);

include!("/verif/build/kani-gen/decimal.playback.rs");
