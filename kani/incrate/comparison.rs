// C05 U2: comparison kernels incl. NULL handling; C02/C06 U1: ComparisonOperator::{flip, negate}
use super::*;
use crate::expr::comparison_expr::ComparisonOperator;
use crate::verif_kani::with_put1;
include!("/verif/build/kani-gen/comparison.kernels.rs");

//@fn functions/scalar/builtin/comparison.rs ComparisonOperation::compare for Eq/NotEq/Lt/LtEq/Gt/GtEq Operation
//@fn functions/scalar/builtin/comparison.rs DistinctComparisonOperation::{compare_nullable, compare_non_nullable} for IsDistinctFrom / IsNotDistinctFrom / NullCoercedComparison<C>
//@fn expr/comparison_expr.rs ComparisonOperator::flip
//@fn expr/comparison_expr.rs ComparisonOperator::negate

// Specification order, written from two primitives only (lt, eq) so that a swapped operator in
// an impl cannot be mirrored by the spec.
trait Spec: Copy + PartialEq + PartialOrd {
    fn lt(self, o: Self) -> bool { self < o }
    fn eq_(self, o: Self) -> bool { self == o }
}
impl Spec for i8 {}
impl Spec for u8 {}
impl Spec for i64 {}
impl Spec for u64 {}
impl Spec for i128 {}
impl Spec for f32 {}
impl Spec for f64 {}
// Kani 0.68 mis-models `<` on bool; write FALSE < TRUE out.
// (bool instances are therefore only checked for Eq / NotEq / DISTINCT, where no ordering operator is executed.)

fn spec_op<T: Spec>(op: u8, a: T, b: T) -> bool {
    match op {
        0 => a.eq_(b),
        1 => !a.eq_(b),
        2 => a.lt(b),
        3 => a.lt(b) || a.eq_(b),
        4 => b.lt(a),
        _ => b.lt(a) || a.eq_(b),
    }
}

macro_rules! cmp_kernels {
    ($name:ident, $S:ty, $t:ty, $any_a:expr, $any_b:expr) => {
        #[kani::proof]
        fn $name() {
            let a: $t = $any_a;
            let b: $t = $any_b;
            kani::cover!(spec_op(2, a, b));
            kani::cover!(spec_op(0, a, b));
            let (v, ok) = with_put1!(bool, false, |buf| k_flat_cmp::<EqOperation, $S>(&a, &b, buf));
            assert!(ok && v == spec_op(0, a, b), "= kernel");
            let (v, ok) = with_put1!(bool, false, |buf| k_flat_cmp::<NotEqOperation, $S>(&a, &b, buf));
            assert!(ok && v == spec_op(1, a, b), "<> kernel");
            let (v, ok) = with_put1!(bool, false, |buf| k_flat_cmp::<LtOperation, $S>(&a, &b, buf));
            assert!(ok && v == spec_op(2, a, b), "< kernel");
            let (v, ok) = with_put1!(bool, false, |buf| k_flat_cmp::<LtEqOperation, $S>(&a, &b, buf));
            assert!(ok && v == spec_op(3, a, b), "<= kernel");
            let (v, ok) = with_put1!(bool, false, |buf| k_flat_cmp::<GtOperation, $S>(&a, &b, buf));
            assert!(ok && v == spec_op(4, a, b), "> kernel");
            let (v, ok) = with_put1!(bool, false, |buf| k_flat_cmp::<GtEqOperation, $S>(&a, &b, buf));
            assert!(ok && v == spec_op(5, a, b), ">= kernel");
        }
    };
}
cmp_kernels!(c05_cmp_i8__def, PhysicalI8, i8, kani::any(), kani::any());
cmp_kernels!(c05_cmp_u8__def, PhysicalU8, u8, kani::any(), kani::any());
cmp_kernels!(c05_cmp_i64__def, PhysicalI64, i64, kani::any(), kani::any());
cmp_kernels!(c05_cmp_u64__def, PhysicalU64, u64, kani::any(), kani::any());
cmp_kernels!(c05_cmp_i128__def, PhysicalI128, i128, kani::any(), kani::any());
// floats: IEEE predicates; with a NaN operand every operator except <> is false
cmp_kernels!(c05_cmp_f32__def, PhysicalF32, f32, kani::any(), kani::any());
cmp_kernels!(c05_cmp_f64__def, PhysicalF64, f64, kani::any(), kani::any());

#[kani::proof]
fn c05_cmp_decimal__def() {
    let a: i64 = kani::any();
    let b: i64 = kani::any();
    kani::cover!(a < b);
    let (v, ok) = with_put1!(bool, false, |buf| k_dec_cmp::<LtOperation, Decimal64Type>(&a, &b, buf));
    assert!(ok && v == (a < b));
    let (v, ok) = with_put1!(bool, false, |buf| k_dec_cmp::<GtEqOperation, Decimal64Type>(&a, &b, buf));
    assert!(ok && v == !(a < b));
    let (v, ok) = with_put1!(bool, false, |buf| k_dec_cmp::<EqOperation, Decimal64Type>(&a, &b, buf));
    assert!(ok && v == (a == b));
}

#[kani::proof]
fn c05_cmp_bool__eq_def() {
    let a: bool = kani::any();
    let b: bool = kani::any();
    kani::cover!(a != b);
    let (v, ok) = with_put1!(bool, false, |buf| k_flat_cmp::<EqOperation, PhysicalBool>(&a, &b, buf));
    assert!(ok && v == (a == b));
    let (v, ok) = with_put1!(bool, false, |buf| k_flat_cmp::<NotEqOperation, PhysicalBool>(&a, &b, buf));
    assert!(ok && v == (a != b));
}

// evaluation of an operator on possibly-NULL operands through the REAL nullable kernels.
// This is the table `ComparisonOperator -> FUNCTION_SET_* -> *Operation` of comparison_expr.rs /
// comparison.rs written once more; NULL -> false is "no match" (join / filter semantics).
fn eval<T: PartialEq + PartialOrd>(op: ComparisonOperator, a: Option<T>, b: Option<T>) -> bool {
    match op {
        ComparisonOperator::Eq => NullCoercedComparison::<EqOperation>::compare_nullable(a, b),
        ComparisonOperator::NotEq => NullCoercedComparison::<NotEqOperation>::compare_nullable(a, b),
        ComparisonOperator::Lt => NullCoercedComparison::<LtOperation>::compare_nullable(a, b),
        ComparisonOperator::LtEq => NullCoercedComparison::<LtEqOperation>::compare_nullable(a, b),
        ComparisonOperator::Gt => NullCoercedComparison::<GtOperation>::compare_nullable(a, b),
        ComparisonOperator::GtEq => NullCoercedComparison::<GtEqOperation>::compare_nullable(a, b),
        ComparisonOperator::IsDistinctFrom => IsDistinctFromOperation::compare_nullable(a, b),
        ComparisonOperator::IsNotDistinctFrom => IsNotDistinctFromOperation::compare_nullable(a, b),
    }
}

fn any_op() -> ComparisonOperator {
    let k: u8 = kani::any();
    kani::assume(k < 8);
    match k {
        0 => ComparisonOperator::Eq,
        1 => ComparisonOperator::NotEq,
        2 => ComparisonOperator::Lt,
        3 => ComparisonOperator::LtEq,
        4 => ComparisonOperator::Gt,
        5 => ComparisonOperator::GtEq,
        6 => ComparisonOperator::IsDistinctFrom,
        _ => ComparisonOperator::IsNotDistinctFrom,
    }
}

// NULL handling of the nullable kernels, per SQL: a comparison with a NULL operand is not true;
// IS [NOT] DISTINCT FROM treats NULL as a value.
#[kani::proof]
fn c05c06c07_cmp_nullable__def() {
    let a: Option<i8> = kani::any();
    let b: Option<i8> = kani::any();
    let op = any_op();
    kani::cover!(a.is_none() && b.is_some());
    kani::cover!(a.is_none() && b.is_none());
    let r = eval(op, a, b);
    match (a, b) {
        (Some(x), Some(y)) => {
            let expect = match op {
                ComparisonOperator::Eq | ComparisonOperator::IsNotDistinctFrom => x == y,
                ComparisonOperator::NotEq | ComparisonOperator::IsDistinctFrom => x != y,
                ComparisonOperator::Lt => x < y,
                ComparisonOperator::LtEq => x < y || x == y,
                ComparisonOperator::Gt => y < x,
                ComparisonOperator::GtEq => y < x || x == y,
            };
            assert!(r == expect, "non-NULL operands");
        }
        (None, None) => assert!(r == matches!(op, ComparisonOperator::IsNotDistinctFrom), "NULL vs NULL: only IS NOT DISTINCT FROM is true"),
        _ => assert!(r == matches!(op, ComparisonOperator::IsDistinctFrom), "NULL vs value: only IS DISTINCT FROM is true"),
    }
    // compare_non_nullable agrees with compare_nullable on non-NULLs
    if let (Some(x), Some(y)) = (a, b) {
        assert!(IsDistinctFromOperation::compare_non_nullable(x, y) == (x != y));
        assert!(IsNotDistinctFromOperation::compare_non_nullable(x, y) == (x == y));
        assert!(NullCoercedComparison::<LtOperation>::compare_non_nullable(x, y) == (x < y));
    }
}

// `a op b` == `b flip(op) a` for all operands incl. NULL: what filter pushdown / join planning
// rely on when they swap the sides of a condition.
#[kani::proof]
fn c02c06_flip__equivalent() {
    let a: Option<i8> = kani::any();
    let b: Option<i8> = kani::any();
    let op = any_op();
    kani::cover!(matches!(op, ComparisonOperator::IsNotDistinctFrom) && a.is_none());
    assert!(eval(op, a, b) == eval(op.flip(), b, a), "flip() changes the meaning of the comparison");
    assert!(op.flip().flip() == op, "flip() is not an involution");
}

// `NOT (a op b)` == `a negate(op) b` for non-NULL operands, and for the DISTINCT pair also with NULLs.
#[kani::proof]
fn c02c06_negate__complement() {
    let a: Option<i8> = kani::any();
    let b: Option<i8> = kani::any();
    let op = any_op();
    kani::cover!(a.is_some() && b.is_some());
    let distinct = matches!(op, ComparisonOperator::IsDistinctFrom | ComparisonOperator::IsNotDistinctFrom);
    if (a.is_some() && b.is_some()) || distinct {
        assert!(eval(op.negate(), a, b) == !eval(op, a, b), "negate() is not the complement");
    }
    assert!(op.negate().negate() == op);
}

include!("/verif/build/kani-gen/comparison.playback.rs");
