// C03 U4 / C14 U3 / C15 U2: SET handlers -- legal ranges, frame (only the named field changes), failure atomicity.
use super::*;
use crate::verif_kani::{stub_backtrace_capture, stub_dberror_new, stub_dberror_with_source, stub_format};

//@fn config/session.rs impl SessionSetting for Partitions / BatchSize / EnableOptimizer / VerifyOptimizedPlan / EnableHashJoins / EnableFunctionChaining / PerPartitionCounts :: {set_from_scalar, get_as_scalar}
//@fn config/session.rs Partitions::validate_value
//@fn arrays/scalar/mod.rs BorrowedScalarValue::{try_as_usize, try_as_bool}

type Snap = (bool, u64, u64, bool, bool, bool, bool, usize);

fn any_conf() -> SessionConfig {
    SessionConfig {
        enable_optimizer: kani::any(),
        application_name: String::new(),
        partitions: kani::any(),
        batch_size: kani::any(),
        verify_optimized_plan: kani::any(),
        enable_hash_joins: kani::any(),
        enable_function_chaining: kani::any(),
        per_partition_counts: kani::any(),
    }
}

fn snap(c: &SessionConfig) -> Snap {
    (c.enable_optimizer, c.partitions, c.batch_size, c.verify_optimized_plan, c.enable_hash_joins, c.enable_function_chaining,
     c.per_partition_counts, c.application_name.len())
}

/// (scalar, Some(integer value) if it is an integer variant, Some(b) if boolean)
/// `k` is concrete at every call site (loop counter), so the variant -- and with it the drop glue -- is static.
fn any_scalar(k: u8) -> (BorrowedScalarValue<'static>, Option<i128>, Option<bool>) {
    match k {
        0 => { let v: i8 = kani::any(); (BorrowedScalarValue::Int8(v), Some(v as i128), None) }
        1 => { let v: i16 = kani::any(); (BorrowedScalarValue::Int16(v), Some(v as i128), None) }
        2 => { let v: i32 = kani::any(); (BorrowedScalarValue::Int32(v), Some(v as i128), None) }
        3 => { let v: i64 = kani::any(); (BorrowedScalarValue::Int64(v), Some(v as i128), None) }
        4 => { let v: u8 = kani::any(); (BorrowedScalarValue::UInt8(v), Some(v as i128), None) }
        5 => { let v: u16 = kani::any(); (BorrowedScalarValue::UInt16(v), Some(v as i128), None) }
        6 => { let v: u32 = kani::any(); (BorrowedScalarValue::UInt32(v), Some(v as i128), None) }
        7 => { let v: u64 = kani::any(); (BorrowedScalarValue::UInt64(v), Some(v as i128), None) }
        8 => { let b: bool = kani::any(); (BorrowedScalarValue::Boolean(b), None, Some(b)) }
        9 => (BorrowedScalarValue::Null, None, None),
        10 => { let v: f64 = kani::any(); (BorrowedScalarValue::Float64(v), None, None) }
        _ => { let v: i32 = kani::any(); (BorrowedScalarValue::Date32(v), None, None) }
    }
}

fn forget_ok(r: Result<()>) -> bool {
    let ok = r.is_ok();
    std::mem::forget(r);
    ok
}

macro_rules! int_setting {
    ($name:ident, $Setting:ty, $field:ident, $idx:tt, $lo:expr, $hi:expr) => {
        #[kani::proof]
        #[kani::unwind(14)]
        #[kani::stub(std::fmt::format, stub_format)]
        #[kani::stub(std::backtrace::Backtrace::capture, stub_backtrace_capture)]
        #[kani::stub(glaredb_error::DbError::new, stub_dberror_new)]
        #[kani::stub(glaredb_error::DbError::with_source, stub_dberror_with_source)]
        fn $name() {
          let mut k: u8 = 0;
          while k < 12 {
            let mut conf = any_conf();
            let before = snap(&conf);
            let (scalar, int, _b) = any_scalar(k);
            kani::cover!(k == 3);
            let ok = forget_ok(<$Setting>::set_from_scalar(scalar, &mut conf));
            let legal = match int { Some(v) => v >= $lo && v <= $hi, None => false };
            assert!(ok == legal, "accepted range differs from the documented one");
            let after = snap(&conf);
            if ok {
                assert!(conf.$field as i128 == int.unwrap(), "value stored differs from the value given");
                let mut expect = before;
                expect.$idx = conf.$field;
                assert!(after == expect, "SET changed another setting");
            } else {
                assert!(after == before, "a failed SET modified the configuration");
            }
            k += 1;
          }
        }
    };
}
int_setting!(c03c14c15_set_partitions__range_frame, Partitions, partitions, 1, 1, 512);
int_setting!(c03c14c15_set_batch_size__range_frame, BatchSize, batch_size, 2, 1, 8192);

macro_rules! bool_setting {
    ($name:ident, $Setting:ty, $field:ident, $idx:tt) => {
        #[kani::proof]
        #[kani::unwind(14)]
        #[kani::stub(std::fmt::format, stub_format)]
        #[kani::stub(std::backtrace::Backtrace::capture, stub_backtrace_capture)]
        #[kani::stub(glaredb_error::DbError::new, stub_dberror_new)]
        #[kani::stub(glaredb_error::DbError::with_source, stub_dberror_with_source)]
        fn $name() {
          let mut k: u8 = 0;
          while k < 12 {
            let mut conf = any_conf();
            let before = snap(&conf);
            let (scalar, _int, b) = any_scalar(k);
            kani::cover!(k == 8);
            let ok = forget_ok(<$Setting>::set_from_scalar(scalar, &mut conf));
            assert!(ok == b.is_some(), "only a boolean is a legal value");
            let after = snap(&conf);
            if ok {
                let mut expect = before;
                expect.$idx = b.unwrap();
                assert!(after == expect, "SET stored a wrong value or changed another setting");
            } else {
                assert!(after == before, "a failed SET modified the configuration");
            }
            k += 1;
          }
        }
    };
}
bool_setting!(c14c15_set_enable_optimizer__frame, EnableOptimizer, enable_optimizer, 0);
bool_setting!(c14c15_set_verify_optimized_plan__frame, VerifyOptimizedPlan, verify_optimized_plan, 3);
bool_setting!(c03c14c15_set_enable_hash_joins__frame, EnableHashJoins, enable_hash_joins, 4);
bool_setting!(c14c15_set_enable_function_chaining__frame, EnableFunctionChaining, enable_function_chaining, 5);
bool_setting!(c14c15_set_per_partition_counts__frame, PerPartitionCounts, per_partition_counts, 6);

include!("/verif/build/kani-gen/config_session.playback.rs");
