// C19 U6 (bounded stand-in, native; NOT a proof): `decode_metadata` -- Thrift footer decoding, schema reconstruction
// (`schema_from_thrift`), row-group / column-chunk conversion and statistics decoding -- on damaged footers.  One small
// valid footer (a root group with an INT32 and an optional BYTE_ARRAY / UTF8 column, one row group with statistics) is
// damaged in every way of a stated finite family:
//   every truncation, and every single-byte substitution by 0x00, 0x01, 0x7f, 0x80, 0xff, (original XOR 0x01),
//   (original XOR 0x10), (original + 1)
// `decode_metadata` must return Ok or Err on each: no panic (slice index, `unwrap`, `unimplemented!`, arithmetic
// overflow, capacity overflow from a lying list length).
use super::*;
use crate::format;
use thrift::protocol::TCompactOutputProtocol;

//@fn metadata/loader.rs decode_metadata (+ thrift.rs reader, schema/types.rs schema_from_thrift, metadata RowGroupMetaData::from_thrift, statistics::from_thrift)

fn valid_footer() -> Vec<u8> {
    let schema = vec![
        format::SchemaElement::new(None, None, None, "schema".to_string(), Some(2), None, None, None, None, None),
        format::SchemaElement::new(Some(format::Type::INT32), None, Some(format::FieldRepetitionType::REQUIRED), "a".to_string(), None, None, None, None, None, None),
        format::SchemaElement::new(
            Some(format::Type::BYTE_ARRAY),
            None,
            Some(format::FieldRepetitionType::OPTIONAL),
            "b".to_string(),
            None,
            Some(format::ConvertedType::UTF8),
            None,
            None,
            None,
            None,
        ),
    ];
    let stats_a = format::Statistics {
        max: None,
        min: None,
        null_count: Some(0),
        distinct_count: None,
        max_value: Some(9i32.to_le_bytes().to_vec()),
        min_value: Some(1i32.to_le_bytes().to_vec()),
        is_max_value_exact: Some(true),
        is_min_value_exact: Some(true),
    };
    let stats_b = format::Statistics {
        max: Some(b"zz".to_vec()),
        min: Some(b"aa".to_vec()),
        null_count: Some(1),
        distinct_count: Some(2),
        max_value: None,
        min_value: None,
        is_max_value_exact: None,
        is_min_value_exact: None,
    };
    let col = |ty: format::Type, name: &str, stats: format::Statistics, off: i64| {
        format::ColumnChunk::new(
            None,
            off,
            Some(format::ColumnMetaData::new(
                ty,
                vec![format::Encoding::PLAIN, format::Encoding::RLE],
                vec![name.to_string()],
                format::CompressionCodec::UNCOMPRESSED,
                3,
                40,
                40,
                None,
                off,
                None,
                None,
                Some(stats),
                None,
                None,
                None,
                None,
                None,
            )),
            None,
            None,
            None,
            None,
            None,
            None,
        )
    };
    let rg = format::RowGroup::new(
        vec![col(format::Type::INT32, "a", stats_a, 4), col(format::Type::BYTE_ARRAY, "b", stats_b, 44)],
        80,
        3,
        None,
        Some(4),
        Some(80),
        Some(0),
    );
    let meta = format::FileMetaData {
        version: 2,
        schema,
        num_rows: 3,
        row_groups: vec![rg],
        key_value_metadata: Some(vec![format::KeyValue::new("k".to_string(), Some("v".to_string()))]),
        created_by: Some("verif".to_string()),
        column_orders: Some(vec![
            format::ColumnOrder::TYPEORDER(format::TypeDefinedOrder {}),
            format::ColumnOrder::TYPEORDER(format::TypeDefinedOrder {}),
        ]),
        encryption_algorithm: None,
        footer_signing_key_metadata: None,
    };
    let mut out = Vec::new();
    {
        let mut prot = TCompactOutputProtocol::new(&mut out);
        meta.write_to_out_protocol(&mut prot).unwrap();
    }
    out
}

#[test]
fn c19_footer__damaged_metadata_ok_or_err_never_panic__nat() {
    let footer = valid_footer();
    let ok = decode_metadata(&footer);
    match &ok {
        Ok(m) => assert!(m.row_groups.len() == 1 && m.file_metadata.schema_descr.num_columns() == 2, "valid footer decoded wrongly"),
        Err(e) => panic!("valid footer rejected: {e}"),
    }
    let mut damaged: Vec<(String, Vec<u8>)> = Vec::new();
    for cut in 0..footer.len() {
        damaged.push((format!("truncated to {cut} bytes"), footer[..cut].to_vec()));
    }
    for pos in 0..footer.len() {
        for sub in [0x00u8, 0x01, 0x7f, 0x80, 0xff, footer[pos] ^ 0x01, footer[pos] ^ 0x10, footer[pos].wrapping_add(1)] {
            if sub != footer[pos] {
                let mut c = footer.clone();
                c[pos] = sub;
                damaged.push((format!("byte {pos} {:#04x} -> {sub:#04x}", footer[pos]), c));
            }
        }
    }
    let mut cases = 0usize;
    for (what, bytes) in damaged {
        let b = bytes.clone();
        let res = std::panic::catch_unwind(move || decode_metadata(&b).is_ok());
        assert!(res.is_ok(), "footer decoding panics on a damaged footer ({what}; footer of {} bytes)", footer.len());
        cases += 1;
    }
    assert!(cases > 800);
}
include!("/verif/build/kani-gen/pq_footer.playback.rs");
