// C10 U4 (valid streams, bounded: <= 8 stream bytes, <= 6 values) and C19 U3 (arbitrary bytes):
// RLE / bit-packed hybrid decoder -- run semantics and the resume-across-calls state machine.
use super::*;

//@fn column/encoding/rle_bit_packed.rs RleBitPackedDecoder::{new, read, read_next}

fn stub_format(_: std::fmt::Arguments<'_>) -> String {
    String::new()
}
fn stub_backtrace_capture() -> std::backtrace::Backtrace {
    std::backtrace::Backtrace::disabled()
}
fn stub_dberror_new(msg: impl Into<String>) -> glaredb_error::DbError {
    std::mem::forget(msg);
    unsafe { std::mem::transmute::<usize, glaredb_error::DbError>(16usize) }
}

fn ok_and_forget(r: Result<()>) -> bool {
    let ok = r.is_ok();
    std::mem::forget(r);
    ok
}

// an RLE run: indicator = count << 1, then the value in ceil(w/8) bytes
#[kani::proof]
#[kani::unwind(5)]
#[kani::stub(std::fmt::format, stub_format)]
#[kani::stub(std::backtrace::Backtrace::capture, stub_backtrace_capture)]
#[kani::stub(glaredb_error::DbError::new, stub_dberror_new)]
fn c10_rle__repeated_run__bnd() {
    let count: u8 = kani::any();
    let val: u8 = kani::any();
    let w: u8 = kani::any();
    kani::assume(count >= 1 && count <= 63 && w >= 1 && w <= 8);
    let stream = [count << 1, val, 0, 0];
    let n: usize = kani::any();
    kani::assume(n >= 1 && n <= 3 && n <= count as usize);
    kani::cover!(n == 3);
    let mut dec = RleBitPackedDecoder::new(ReadCursor::from_slice(&stream[..]), w);
    let mut out = [0u8; 3];
    assert!(ok_and_forget(dec.read(&mut out[..n])), "well-formed RLE run rejected");
    let mut i = 0;
    while i < 3 {
        if i < n {
            assert!(out[i] == val, "RLE run must repeat the stored value");
        }
        i += 1;
    }
    assert!(dec.rle_left == count as usize - n, "remaining run length is wrong");
}

// a literal run of one group (8 values) of width w <= 4, first 3 values read: the consecutive w-bit windows
#[kani::proof]
#[kani::unwind(5)]
#[kani::stub(std::fmt::format, stub_format)]
#[kani::stub(std::backtrace::Backtrace::capture, stub_backtrace_capture)]
#[kani::stub(glaredb_error::DbError::new, stub_dberror_new)]
fn c10_rle__literal_group__bnd() {
    let payload: [u8; 4] = kani::any();
    let w: u8 = kani::any();
    kani::assume(w >= 1 && w <= 4);
    let stream = [(1u8 << 1) | 1, payload[0], payload[1], payload[2], payload[3]];
    let mut dec = RleBitPackedDecoder::new(ReadCursor::from_slice(&stream[..]), w);
    let mut out = [0u8; 3];
    kani::cover!(w == 3);
    assert!(ok_and_forget(dec.read(&mut out[..])), "well-formed literal run rejected");
    let bits = u32::from_le_bytes(payload);
    let mut i = 0;
    while i < 3 {
        let expect = ((bits >> (i as u32 * w as u32)) & ((1u32 << w) - 1)) as u8;
        assert!(out[i] == expect, "literal value differs from its bit window");
        i += 1;
    }
    assert!(dec.bit_packed_left == 5, "a group holds 8 values");
}

// resumability on ANY accepted stream: read(a); read(b)  ==  read(a + b)
#[kani::proof]
#[kani::unwind(5)]
#[kani::stub(std::fmt::format, stub_format)]
#[kani::stub(std::backtrace::Backtrace::capture, stub_backtrace_capture)]
#[kani::stub(glaredb_error::DbError::new, stub_dberror_new)]
fn c10_rle__split_read_equals_single_read__bnd__thr() {
    let stream: [u8; 4] = kani::any();
    let w: u8 = kani::any();
    kani::assume(w >= 1 && w <= 3);
    let a: usize = kani::any();
    let b: usize = kani::any();
    kani::assume(a <= 2 && b <= 2);
    let mut d1 = RleBitPackedDecoder::new(ReadCursor::from_slice(&stream[..]), w);
    let mut o1 = [0u8; 4];
    let ok1 = ok_and_forget(d1.read(&mut o1[..a + b]));
    let mut d2 = RleBitPackedDecoder::new(ReadCursor::from_slice(&stream[..]), w);
    let mut o2 = [0u8; 4];
    let ok2a = ok_and_forget(d2.read(&mut o2[..a]));
    kani::assume(ok1 && ok2a);
    let ok2b = ok_and_forget(d2.read(&mut o2[a..a + b]));
    kani::cover!(ok2b && a == 2 && b == 2);
    assert!(ok2b, "a stream readable in one call failed when read in two");
    assert!(o1 == o2, "values depend on how the reads were split");
    assert!(d1.rle_left == d2.rle_left && d1.bit_packed_left == d2.bit_packed_left && d1.bit_pos == d2.bit_pos
        && d1.buffer.remaining() == d2.buffer.remaining(), "decoder state depends on how the reads were split");
}

// quick variant of the resumability obligation: one value, then one more (the full a,b <= 2 version is thorough-only)
#[kani::proof]
#[kani::unwind(5)]
#[kani::stub(std::fmt::format, stub_format)]
#[kani::stub(std::backtrace::Backtrace::capture, stub_backtrace_capture)]
#[kani::stub(glaredb_error::DbError::new, stub_dberror_new)]
fn c10_rle__split_1_1_equals_single_read__bnd__thr() {
    let stream: [u8; 3] = kani::any();
    let w: u8 = kani::any();
    kani::assume(w >= 1 && w <= 2);
    let mut d1 = RleBitPackedDecoder::new(ReadCursor::from_slice(&stream[..]), w);
    let mut o1 = [0u8; 2];
    let ok1 = ok_and_forget(d1.read(&mut o1[..2]));
    let mut d2 = RleBitPackedDecoder::new(ReadCursor::from_slice(&stream[..]), w);
    let mut o2 = [0u8; 2];
    let ok2a = ok_and_forget(d2.read(&mut o2[..1]));
    kani::assume(ok1 && ok2a);
    let ok2b = ok_and_forget(d2.read(&mut o2[1..2]));
    kani::cover!(ok2b);
    assert!(ok2b, "a stream readable in one call failed when read in two");
    assert!(o1 == o2, "values depend on how the reads were split");
    assert!(d1.rle_left == d2.rle_left && d1.bit_packed_left == d2.bit_packed_left && d1.bit_pos == d2.bit_pos
        && d1.buffer.remaining() == d2.buffer.remaining(), "decoder state depends on how the reads were split");
}

// ---- C19: arbitrary bytes, arbitrary legal bit width: error or values, never a trap / out-of-bounds read ----
#[kani::proof]
#[kani::unwind(7)]
#[kani::stub(std::fmt::format, stub_format)]
#[kani::stub(std::backtrace::Backtrace::capture, stub_backtrace_capture)]
#[kani::stub(glaredb_error::DbError::new, stub_dberror_new)]
fn c19_rle__arbitrary_bytes_no_trap__bnd__term__thr() {
    let stream: [u8; 4] = kani::any();
    let len: usize = kani::any();
    let w: u8 = kani::any();
    // bounded: <= 4 stream bytes, bit width <= 16, <= 2 values
    kani::assume(len <= 4 && w <= 16);
    let n: usize = kani::any();
    kani::assume(n <= 2);
    kani::cover!(len == 0 && n > 0);
    kani::cover!(len == 4);
    let mut dec = RleBitPackedDecoder::new(ReadCursor::from_slice(&stream[..len]), w);
    let mut out = [0u64; 2];
    let r = dec.read(&mut out[..n]);
    assert!(dec.buffer.remaining() <= len);
    std::mem::forget(r);
}

// C10 / C03 (bounded stand-in, native; NOT a proof): the RLE / bit-packed hybrid decoder (definition levels, dictionary
// indices, booleans) returns the encoded values however the reads are cut.  Streams are produced by a small reference
// ENCODER written from the format specification (bit-packed run: header (groups << 1) | 1 followed by groups of 8 values,
// least significant bit first; RLE run: header count << 1 followed by the value in ceil(width / 8) bytes).  For bit
// widths 1, 2, 3, 5, 7, 8, 12 and six run layouts (bit-packed runs of 8 / 16 / 24 values, an RLE run, RLE + bit-packed,
// bit-packed + RLE + bit-packed) the real decoder must return the encoded values when reading everything in one call
// and when reading at EVERY split point into two calls and at every pair of split points into three (a batch boundary
// in the middle of a bit-packed run, i.e. not at a byte boundary for widths that are not a multiple of 8).
fn rle_uleb(mut v: u64, out: &mut Vec<u8>) {
    loop {
        let b = (v & 0x7f) as u8;
        v >>= 7;
        if v == 0 {
            out.push(b);
            break;
        }
        out.push(b | 0x80);
    }
}

fn rle_encode(runs: &[(bool, Vec<u64>)], width: u32) -> Vec<u8> {
    let mut out = Vec::new();
    for (packed, vals) in runs {
        if *packed {
            assert!(vals.len() % 8 == 0);
            rle_uleb((((vals.len() / 8) as u64) << 1) | 1, &mut out);
            let mut acc: u128 = 0;
            let mut nbits = 0u32;
            for v in vals {
                acc |= (*v as u128) << nbits;
                nbits += width;
                while nbits >= 8 {
                    out.push((acc & 0xff) as u8);
                    acc >>= 8;
                    nbits -= 8;
                }
            }
            assert!(nbits == 0);
        } else {
            rle_uleb((vals.len() as u64) << 1, &mut out);
            let v = vals[0];
            for i in 0..width.div_ceil(8) {
                out.push(((v >> (8 * i)) & 0xff) as u8);
            }
        }
    }
    out
}

#[test]
fn c03c10_rle_hybrid__values_and_split_reads__nat() {
    let mut cases = 0usize;
    for width in [1u32, 2, 3, 5, 7, 8, 12] {
        let mask = (1u64 << width) - 1;
        let val = |i: usize| -> u64 { ((i as u64).wrapping_mul(0x9e37_79b9) >> 7 ^ (i as u64)) & mask };
        let packed = |start: usize, n: usize| -> (bool, Vec<u64>) { (true, (start..start + n).map(val).collect()) };
        let rle = |v: u64, n: usize| -> (bool, Vec<u64>) { (false, vec![v & mask; n]) };
        let layouts: Vec<Vec<(bool, Vec<u64>)>> = vec![
            vec![packed(0, 8)],
            vec![packed(3, 16)],
            vec![packed(5, 24)],
            vec![rle(5, 7)],
            vec![rle(1, 3), packed(11, 16)],
            vec![packed(2, 8), rle(6, 5), packed(40, 16)],
        ];
        for runs in &layouts {
            let stream = rle_encode(runs, width);
            let want: Vec<u64> = runs.iter().flat_map(|(_, v)| v.iter().copied()).collect();
            let n = want.len();
            let read = |cuts: &[usize]| -> std::result::Result<Vec<u64>, String> {
                let mut dec = RleBitPackedDecoder::new(ReadCursor::from_slice(&stream), width as u8);
                let mut out = vec![0u64; n];
                let mut prev = 0;
                for &c in cuts.iter().chain(std::iter::once(&n)) {
                    if c > prev {
                        dec.read(&mut out[prev..c]).map_err(|e| e.to_string().lines().next().unwrap_or("").to_string())?;
                    }
                    prev = c;
                }
                Ok(out)
            };
            let describe = || -> String { runs.iter().map(|(p, v)| format!("{}x{}", if *p { "bit-packed" } else { "rle" }, v.len())).collect::<Vec<_>>().join(" + ") };
            match read(&[]) {
                Ok(got) => assert!(got == want, "RLE / bit-packed hybrid (width {width}, runs {}) decodes to {got:?}, the encoded values are {want:?}", describe()),
                Err(e) => panic!("RLE / bit-packed hybrid (width {width}, runs {}) failed: {e}", describe()),
            }
            for a in 0..=n {
                for b in a..=n {
                    match read(&[a, b]) {
                        Ok(got) => assert!(
                            got == want,
                            "RLE / bit-packed hybrid (width {width}, runs {}) read as {a} + {} + {} values gives {got:?}, a single read gives {want:?}",
                            describe(), b - a, n - b
                        ),
                        Err(e) => panic!("RLE / bit-packed hybrid (width {width}, runs {}) read as {a} + {} + {} values failed: {e}", describe(), b - a, n - b),
                    }
                    cases += 1;
                }
            }
        }
    }
    assert!(cases > 5000);
}

include!("/verif/build/kani-gen/pq_rle.playback.rs");
