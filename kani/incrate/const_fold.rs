// C12 U-dt (bounded stand-in, native): DECIMAL + - * through the REAL bind -> cast -> kernel -> executor path
// (expr::arith + ConstFold::rewrite), on a grid of (precision, scale) pairs incl. the precision cap of Decimal64 and
// boundary values, against exact rational arithmetic:
//   if the statement succeeds, the result is a DECIMAL whose unscaled value has at most `precision` digits and equals
//   the mathematical result exactly; it may fail only if the exact result does not fit the announced result type.
// The Expression trees (Box / Arc / Vec, dynamic function tables) are out of reach of CBMC and Verus.
use super::*;
use crate::arrays::scalar::decimal::Decimal64Scalar;
use crate::arrays::scalar::BorrowedScalarValue;
use crate::expr::arith_expr::ArithOperator;

//@fn functions/scalar/builtin/arith/{add,sub,mul}.rs DecimalAdd / DecimalSub / DecimalMul :: {bind, execute} via expr::arith + ConstFold::rewrite
//@fn functions/scalar/builtin/arith/decimal_arith.rs common_add_sub_decimal_type_info

fn pow10(n: u32) -> i128 {
    10i128.pow(n)
}

fn grid() -> Vec<(u8, i8)> {
    let mut g = Vec::new();
    for p in [1u8, 2, 4, 9, 10, 17, 18] {
        for s in [0i8, 1, 2, 4, 9, 17, 18] {
            if (s as u8) <= p {
                g.push((p, s));
            }
        }
    }
    g
}

fn values(p: u8) -> Vec<i64> {
    let max = (pow10(p as u32) - 1) as i64;
    let mut v = vec![0, 1, -1, max, -max, max / 2 + 1, -(max / 3)];
    v.sort();
    v.dedup();
    v
}

fn eval(op: ArithOperator, l: Decimal64Scalar, r: Decimal64Scalar) -> std::result::Result<(u8, i8, i128), String> {
    let expr = crate::expr::arith(op, crate::expr::lit(l), crate::expr::lit(r)).map_err(|e| e.to_string())?;
    let folded = ConstFold::rewrite(expr.into()).map_err(|e| e.to_string())?;
    match folded {
        Expression::Literal(lit) => match lit.0 {
            BorrowedScalarValue::Decimal64(d) => Ok((d.precision, d.scale, d.value as i128)),
            BorrowedScalarValue::Decimal128(d) => Ok((d.precision, d.scale, d.value)),
            other => Err(format!("not a decimal: {other}")),
        },
        _ => Err("not folded".to_string()),
    }
}

fn run_grid(check_precision: bool) {
    let mut checked = 0usize;
    for (p1, s1) in grid() {
        for (p2, s2) in grid() {
            for v1 in values(p1) {
                for v2 in values(p2) {
                    let l = Decimal64Scalar { precision: p1, scale: s1, value: v1 };
                    let r = Decimal64Scalar { precision: p2, scale: s2, value: v2 };
                    for (op, name) in [(ArithOperator::Add, "+"), (ArithOperator::Sub, "-"), (ArithOperator::Mul, "*")] {
                        let got = std::panic::catch_unwind(|| eval(op, l, r));
                        let got = match got {
                            Ok(g) => g,
                            Err(_) => {
                                if check_precision {
                                    panic!("{v1}e-{s1}::decimal({p1},{s1}) {name} {v2}e-{s2}::decimal({p2},{s2}): arithmetic overflow trap instead of an error");
                                }
                                // overflow traps belong to the precision / overflow obligation
                                continue;
                            }
                        };
                        checked += 1;
                        if let Ok((p, s, val)) = got {
                            let what = format!("{v1}e-{s1}::decimal({p1},{s1}) {name} {v2}e-{s2}::decimal({p2},{s2}) = {val}e-{s}::decimal({p},{s})");
                            assert!(s >= 0 && (s as u8) <= p, "{what}: illegal result type");
                            if check_precision {
                                assert!(val.unsigned_abs() < pow10(p as u32) as u128, "{what}: more digits than the announced precision");
                                continue;
                            }
                            // exact rational comparison: val / 10^s == v1 / 10^s1 (op) v2 / 10^s2
                            let (a, b) = (v1 as i128, v2 as i128);
                            let ok = match op {
                                ArithOperator::Mul => {
                                    // val * 10^(s1+s2) == a*b * 10^s
                                    match (val.checked_mul(pow10((s1 + s2) as u32)), (a * b).checked_mul(pow10(s as u32))) {
                                        (Some(x), Some(y)) => x == y,
                                        _ => continue,
                                    }
                                }
                                _ => {
                                    let m = s1.max(s2) as u32;
                                    let a2 = a * pow10(m - s1 as u32);
                                    let b2 = b * pow10(m - s2 as u32);
                                    let exact = if matches!(op, ArithOperator::Add) { a2 + b2 } else { a2 - b2 };
                                    // val / 10^s == exact / 10^m
                                    match (val.checked_mul(pow10(m)), exact.checked_mul(pow10(s as u32))) {
                                        (Some(x), Some(y)) => x == y,
                                        _ => continue,
                                    }
                                }
                            };
                            assert!(ok, "{what}: not the exact mathematical result");
                        }
                    }
                }
            }
        }
    }
    assert!(checked > 10_000);
}

// every successful result is the exact mathematical value in a legal result type
#[test]
fn c12_decimal_arith__exact__nat() {
    run_grid(false);
}

// no successful result has more digits than the announced precision (fails on the pinned tree where the result
// precision is capped at the type's maximum: known finding)
#[test]
fn c12_decimal_arith__precision_respected__nat() {
    run_grid(true);
}

// DECIMAL (op) INTEGER and INTEGER (op) DECIMAL: the binder casts the integer operand; the value of the expression must
// still be the exact mathematical result (or the statement fails).  Same path as above (expr::arith + ConstFold), grid:
// DECIMAL(p, s) from grid() with boundary values x INT32 in {0, 1, -1, 3, 10, 1000, -7} x {+, -, *} x both operand orders.
#[test]
fn c12_decimal_int_arith__exact__nat() {
    use crate::arrays::scalar::ScalarValue;
    let ints = [0i32, 1, -1, 3, 10, 1000, -7];
    let mut checked = 0usize;
    let mut ok_results = 0usize;
    for (p1, s1) in grid() {
        for v1 in values(p1) {
            let d = Decimal64Scalar { precision: p1, scale: s1, value: v1 };
            for &i in &ints {
                for (op, name) in [(ArithOperator::Add, "+"), (ArithOperator::Sub, "-"), (ArithOperator::Mul, "*")] {
                    for dec_left in [true, false] {
                        let got = std::panic::catch_unwind(|| -> std::result::Result<(u8, i8, i128), String> {
                            let (l, r): (Expression, Expression) = if dec_left {
                                (crate::expr::lit(d).into(), crate::expr::lit(ScalarValue::Int32(i)).into())
                            } else {
                                (crate::expr::lit(ScalarValue::Int32(i)).into(), crate::expr::lit(d).into())
                            };
                            let expr: Expression = crate::expr::arith(op, l, r).map_err(|e| e.to_string())?.into();
                            // the type the binder announces to every parent expression / operator
                            let announced = expr.datatype().map_err(|e| e.to_string())?;
                            let folded = ConstFold::rewrite(expr).map_err(|e| e.to_string())?;
                            let (p, s, v) = match folded {
                                Expression::Literal(lit) => match lit.0 {
                                    BorrowedScalarValue::Decimal64(d) => (d.precision, d.scale, d.value as i128),
                                    BorrowedScalarValue::Decimal128(d) => (d.precision, d.scale, d.value),
                                    other => return Err(format!("not a decimal: {other}")),
                                },
                                _ => return Err("not folded".to_string()),
                            };
                            let meta = announced.try_get_decimal_type_meta().map_err(|e| e.to_string())?;
                            assert!(
                                meta.precision == p && meta.scale == s,
                                "{}: the value is produced as DECIMAL({p},{s}) but the expression announces DECIMAL({},{})",
                                if dec_left { "decimal (op) int" } else { "int (op) decimal" },
                                meta.precision,
                                meta.scale
                            );
                            Ok((p, s, v))
                        });
                        let got = match got {
                            Ok(g) => g,
                            Err(e) => {
                                // overflow traps belong to the precision / overflow obligation; assertion failures do not
                                if let Some(m) = e.downcast_ref::<String>() {
                                    if m.contains("announces") {
                                        panic!("{v1}e-{s1}::decimal({p1},{s1}) {name} {i}::int: {m}");
                                    }
                                }
                                continue;
                            }
                        };
                        checked += 1;
                        if let Ok((p, s, val)) = got {
                            let what = if dec_left {
                                format!("{v1}e-{s1}::decimal({p1},{s1}) {name} {i}::int = {val}e-{s}::decimal({p},{s})")
                            } else {
                                format!("{i}::int {name} {v1}e-{s1}::decimal({p1},{s1}) = {val}e-{s}::decimal({p},{s})")
                            };
                            assert!(s >= 0 && (s as u8) <= p, "{what}: illegal result type");
                            // exact value scaled by 10^s1:  a / 10^s1 (op) i
                            let a = v1 as i128;
                            let b = i as i128 * pow10(s1 as u32);
                            let (exact_num, exact_scale) = match op {
                                ArithOperator::Add => (a + b, s1 as u32),
                                ArithOperator::Sub => (if dec_left { a - b } else { b - a }, s1 as u32),
                                _ => (a * i as i128, s1 as u32),
                            };
                            // val / 10^s == exact_num / 10^exact_scale
                            if let (Some(x), Some(y)) = (val.checked_mul(pow10(exact_scale)), exact_num.checked_mul(pow10(s as u32))) {
                                assert!(x == y, "{what}: not the exact mathematical result");
                                ok_results += 1;
                            }
                        }
                    }
                }
            }
        }
    }
    assert!(checked > 5_000 && ok_results > 2_000, "checked {checked}, exact results {ok_results}");
}

include!("/verif/build/kani-gen/const_fold.playback.rs");
