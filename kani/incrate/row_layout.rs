// C16 (bounded stand-in, native; NOT a proof): heap reservation for row-encoded strings.  `write_binary` copies every
// non-inline string (> 12 bytes) of a row through a raw per-row heap pointer without a bounds check; what keeps that in
// bounds is the CONTRACT of `RowLayout::compute_heap_sizes`: the size it reports for a row is the sum of the lengths of
// all non-inline, non-NULL string / binary values of that row, over ALL columns (inline values and NULLs need no heap).
// For every layout of 1..=3 string columns (optionally with an INT column in between), every row of values drawn from
// {NULL, "", 5 bytes, 12 bytes (the inline limit), 13 bytes, 40 bytes}, rows given directly and through a reordering /
// repeating selection:
//   * `compute_heap_sizes` returns exactly that sum for every row (entries left from an earlier call are overwritten);
//   * appending the rows to a `RowCollection` and scanning them back returns the same values, and every non-inline string
//     slot of the stored rows points into a heap block of the collection, end included.
use super::*;
use crate::arrays::array::Array;
use crate::arrays::batch::Batch;
use crate::arrays::datatype::{DataType, DataTypeId};
use crate::arrays::row::row_collection::RowCollection;
use crate::arrays::string::StringPtr;
use crate::util::iter::TryFromExactSizeIterator;

//@fn arrays/row/row_layout.rs RowLayout::{compute_heap_sizes, write_arrays / write_binary (through RowCollection::append_arrays)}

fn value(k: usize, salt: usize) -> Option<String> {
    let body = |n: usize| -> String { (0..n).map(|i| (b'a' + ((i + salt) % 26) as u8) as char).collect() };
    match k {
        0 => None,
        1 => Some(String::new()),
        2 => Some(body(5)),
        3 => Some(body(12)),
        4 => Some(body(13)),
        _ => Some(body(40)),
    }
}

#[test]
fn c16_row_layout__heap_sizes_cover_every_non_inline_value__nat() {
    let mut cases = 0usize;
    for ncols in 1..=3usize {
        for with_int in [false, true] {
            // rows: every combination of value kinds for the string columns (6^ncols), in groups of 3 rows
            let combos = 6usize.pow(ncols as u32);
            let mut rows: Vec<Vec<Option<String>>> = Vec::new();
            for code in 0..combos {
                rows.push((0..ncols).map(|c| value((code / 6usize.pow(c as u32)) % 6, code + c)).collect());
            }
            for group in rows.chunks(3) {
                let n = group.len();
                let mut arrays: Vec<Array> = Vec::new();
                for c in 0..ncols {
                    let col: Vec<Option<&str>> = group.iter().map(|r| r[c].as_deref()).collect();
                    arrays.push(Array::try_from_iter(col).unwrap());
                    if with_int && c == 0 {
                        arrays.push(Array::try_from_iter((0..n as i32).map(Some).collect::<Vec<_>>()).unwrap());
                    }
                }
                let layout = RowLayout::try_new(arrays.iter().map(|a| a.datatype().clone())).unwrap();
                let want = |r: usize| -> usize { group[r].iter().flatten().map(|s| s.len()).filter(|l| *l > 12).sum() };
                // direct rows, then a selection that reorders and repeats
                let selections: Vec<Vec<usize>> = vec![(0..n).collect(), (0..n).rev().chain(0..1).collect()];
                for sel in &selections {
                    let mut sizes = vec![777usize; sel.len()];
                    layout.compute_heap_sizes(&arrays, sel.iter().copied(), &mut sizes).unwrap();
                    for (out, &r) in sel.iter().enumerate() {
                        assert!(
                            sizes[out] == want(r),
                            "heap reservation for a row differs from the bytes its non-inline strings need: row {:?} (layout of {ncols} string column(s){}) gets {} bytes, needs {}",
                            group[r], if with_int { " and an INT column" } else { "" }, sizes[out], want(r)
                        );
                    }
                    cases += 1;
                }
                // append + scan back + ownership of the heap pointers
                let mut collection = RowCollection::new(layout.clone(), 16);
                let mut state = collection.init_append();
                collection.append_arrays(&mut state, &arrays, n).unwrap();
                {
                    let blocks = collection.blocks();
                    for block in &blocks.row_blocks {
                        for row in 0..block.num_rows(layout.row_width) {
                            for col in 0..layout.num_columns() {
                                if layout.types[col].id() != DataTypeId::Utf8 {
                                    continue;
                                }
                                let valid = unsafe { layout.validity_buffer(block.as_ptr().byte_add(layout.row_width * row)) };
                                let is_valid = (valid[col / 8] >> (col % 8)) & 1 == 1;
                                if !is_valid {
                                    continue;
                                }
                                let sp = unsafe { block.as_ptr().byte_add(layout.row_width * row + layout.offsets[col]).cast::<StringPtr>().read_unaligned() };
                                if sp.is_reference() {
                                    let addr = sp.as_reference().ptr.addr();
                                    let len = sp.data_len() as usize;
                                    assert!(
                                        blocks.heap_blocks.iter().any(|h| h.data.contains_addr(addr) && addr + len <= h.as_ptr().addr() + h.reserved_bytes),
                                        "a row-encoded string lies outside the heap blocks reserved for it: row {row} column {col} ({len} bytes) of rows {group:?}"
                                    );
                                }
                            }
                        }
                    }
                }
                let mut out = Batch::new(layout.types.clone(), 16).unwrap();
                let mut scan = collection.init_full_scan();
                let got_rows = collection.scan(&mut scan, &mut out).unwrap();
                assert!(got_rows == n, "row collection returned {got_rows} rows, {n} were appended");
                let mut sc = 0usize;
                for (ai, a) in arrays.iter().enumerate() {
                    if a.datatype().id() != DataTypeId::Utf8 {
                        continue;
                    }
                    for r in 0..n {
                        let got = out.arrays()[ai].get_value(r).unwrap();
                        let exp = match &group[r][sc] {
                            Some(s) => format!("{s}"),
                            None => "NULL".to_string(),
                        };
                        assert!(got.to_string() == exp, "row-encoded string read back wrongly: row {r} column {sc}: got {got}, expected {exp} (rows {group:?})");
                    }
                    sc += 1;
                }
            }
        }
    }
    assert!(cases > 300);
}
