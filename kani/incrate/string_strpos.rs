// C20 U3 (bounded stand-in, native): strpos(s, sub) = 1-based CHARACTER position of the first occurrence, 0 if absent.
use super::*;

//@fn functions/scalar/builtin/string/strpos.rs strpos

fn strings3() -> Vec<String> {
    let alphabet = ['a', 'é', '😀'];
    let mut all = vec![String::new()];
    let mut frontier = vec![String::new()];
    for _ in 0..3 {
        let mut next = Vec::new();
        for w in &frontier {
            for c in alphabet {
                let mut x = w.clone();
                x.push(c);
                next.push(x);
            }
        }
        all.extend(next.iter().cloned());
        frontier = next;
    }
    all
}

#[test]
fn c20_strpos__char_position__nat() {
    for s in strings3() {
        let sc: Vec<char> = s.chars().collect();
        for sub in strings3() {
            let subc: Vec<char> = sub.chars().collect();
            let mut expected = 0i64;
            if subc.len() <= sc.len() {
                for i in 0..=(sc.len() - subc.len()) {
                    if sc[i..i + subc.len()] == subc[..] {
                        expected = i as i64 + 1;
                        break;
                    }
                }
            }
            let got = strpos(&s, &sub);
            assert!(got == expected, "strpos({s:?}, {sub:?}) = {got}, expected {expected}");
        }
    }
}

include!("/verif/build/kani-gen/string_strpos.playback.rs");
