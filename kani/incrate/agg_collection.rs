// C07 / C12 (bounded stand-in, native; NOT a proof): the aggregate functions AS REGISTERED in the built-in function sets
// (the state types are proved one by one in agg_sum / agg_avg; this unit pins which state the table hands to which
// input type).  For every input type of SUM and for AVG(BIGINT), every sequence of 1..=3 values from the boundary set
// {MIN, MIN+1, -1, 0, 1, MAX-1, MAX} of the type, and every way the sequence is cut into two partial states (update,
// update, combine, finalize through the real AggregateLayout entry points):
//   SUM  = the mathematical sum if it fits the declared result type, otherwise the statement fails with an error;
//   AVG  = the mathematical sum converted to DOUBLE, divided by the row count (rounding only in those two steps);
// the result never depends on where the sequence was cut.
use super::*;
use crate::arrays::array::physical_type::{Addressable, PhysicalF64, PhysicalI64, ScalarStorage};
use crate::arrays::datatype::DataType;
use crate::arrays::row::aggregate_layout::AggregateUpdateSelector;
use crate::expr::physical::PhysicalAggregateExpression;
use crate::expr::{self, bind_aggregate_function};
use crate::functions::aggregate::builtin::avg::FUNCTION_SET_AVG;
use crate::functions::aggregate::builtin::sum::FUNCTION_SET_SUM;
use crate::functions::function_set::AggregateFunctionSet;
use crate::util::iter::TryFromExactSizeIterator;

//@fn functions/aggregate/builtin/sum.rs FUNCTION_SET_SUM (table wiring: Int8/16/32/64 -> state)
//@fn functions/aggregate/builtin/avg.rs FUNCTION_SET_AVG (table wiring: Int64 -> state)
//@fn arrays/row/aggregate_layout.rs AggregateLayout::{update_states, combine_states, finalize_states}

/// Run `set` over `left ++ right` as two partial states combined; Ok((result array, valid)) or Err.
fn run_split(set: &'static AggregateFunctionSet, input: DataType, left: Array, nl: usize, right: Array, nr: usize) -> Result<Array> {
    let agg = bind_aggregate_function(set, vec![expr::column((0, 1), input.clone())])?;
    let ret = agg.state.return_type.clone();
    let aggs = [PhysicalAggregateExpression::new(agg, [(1, input)])];
    let layout = AggregateLayout::try_new([DataType::int32()], aggs)?;
    let mut collection = AggregateCollection::new(layout, 16);
    let mut state = collection.init_append_state();
    collection.append_groups(&mut state, &[Array::try_from_iter([0_i32, 1])?], 0..2)?;
    let ptrs = state.row_pointers().to_vec();
    unsafe {
        if nl > 0 {
            let mut p = vec![ptrs[0]; nl];
            collection.layout.update_states(&mut p, [AggregateUpdateSelector { aggregate_idx: 0, inputs: &[left] }], nl)?;
        }
        if nr > 0 {
            let mut p = vec![ptrs[1]; nr];
            collection.layout.update_states(&mut p, [AggregateUpdateSelector { aggregate_idx: 0, inputs: &[right] }], nr)?;
        }
        let mut src = vec![ptrs[1]];
        let mut dest = vec![ptrs[0]];
        collection.layout.combine_states([0], &mut src, &mut dest)?;
        let mut fin = vec![ptrs[0]];
        let mut groups = Array::new(&DefaultBufferManager, DataType::int32(), 1)?;
        let mut results = Array::new(&DefaultBufferManager, ret, 1)?;
        collection.finalize_groups(&mut fin, &mut [&mut groups], &mut [&mut results])?;
        Ok(results)
    }
}

fn sequences<T: Copy>(dom: &[T]) -> Vec<Vec<T>> {
    let mut out = Vec::new();
    for &a in dom {
        out.push(vec![a]);
        for &b in dom {
            out.push(vec![a, b]);
            for &c in dom {
                out.push(vec![a, b, c]);
            }
        }
    }
    out
}

macro_rules! check_int_type {
    ($t:ty, $dt:ident, $cases:ident, $avg:expr) => {{
        let dom: [$t; 7] = [<$t>::MIN, <$t>::MIN + 1, -1, 0, 1, <$t>::MAX - 1, <$t>::MAX];
        for seq in sequences(&dom) {
            let exact: i128 = seq.iter().map(|&v| v as i128).sum();
            let mut seen_sum: Option<Option<i64>> = None;
            for cut in 0..=seq.len() {
                let (l, r) = seq.split_at(cut);
                let mk = |s: &[$t]| Array::try_from_iter(s.to_vec()).unwrap();
                // SUM
                let got = run_split(&FUNCTION_SET_SUM, DataType::$dt(), mk(l), l.len(), mk(r), r.len());
                let got: Option<i64> = match got {
                    Ok(arr) => {
                        assert!(arr.validity.is_valid(0), "SUM({}) of a non-empty input is NULL: {seq:?} cut at {cut}", stringify!($t));
                        Some(*PhysicalI64::get_addressable(&arr.data).unwrap().get(0).unwrap())
                    }
                    Err(_) => None,
                };
                match got {
                    Some(v) => assert!(v as i128 == exact, "SUM({}) of {seq:?} cut at {cut} is {v}, mathematical sum is {exact}", stringify!($t)),
                    None => assert!(
                        exact > i64::MAX as i128 || exact < i64::MIN as i128 || stringify!($t) == "i64",
                        "SUM({}) of {seq:?} cut at {cut} failed although the sum {exact} fits", stringify!($t)
                    ),
                }
                if exact <= i64::MAX as i128 && exact >= i64::MIN as i128 && stringify!($t) != "i64" {
                    assert!(got.is_some());
                }
                // cut independence of the OUTCOME for in-range totals (an intermediate overflow of the i64
                // accumulator may fail one cut and not another; a wrong VALUE is never allowed)
                if let (Some(Some(p)), Some(v)) = (seen_sum, got) {
                    assert!(p == v, "SUM({}) of {seq:?} depends on the cut", stringify!($t));
                }
                if got.is_some() {
                    seen_sum = Some(got);
                }
                // AVG
                if $avg {
                    let arr = run_split(&FUNCTION_SET_AVG, DataType::$dt(), mk(l), l.len(), mk(r), r.len());
                    match arr {
                        Ok(arr) => {
                            assert!(arr.validity.is_valid(0));
                            let v = *PhysicalF64::get_addressable(&arr.data).unwrap().get(0).unwrap();
                            let want = (exact as f64) / (seq.len() as f64);
                            assert!(v == want, "AVG({}) of {seq:?} cut at {cut} is {v}, expected {want}", stringify!($t));
                        }
                        Err(_) => panic!("AVG({}) of {seq:?} cut at {cut} failed", stringify!($t)),
                    }
                }
                $cases += 1;
            }
        }
    }};
}

#[test]
fn c07c12_builtin_sum_avg__boundary_values_exact_or_error__nat() {
    let mut cases = 0usize;
    check_int_type!(i8, int8, cases, false);
    check_int_type!(i16, int16, cases, false);
    check_int_type!(i32, int32, cases, false);
    check_int_type!(i64, int64, cases, true);
    assert!(cases > 4000);
}

include!("/verif/build/kani-gen/agg_collection.playback.rs");
