#!/usr/bin/env python3
"""Apply a seeded change to /repo, run the quick check(s) of the given properties, revert.  Prints one line per check.
usage: run_seed.py <patch.diff> <Cxx>[,Cyy...] [extra ./check args]"""
import subprocess, sys, json, re, os
patch, props = sys.argv[1], sys.argv[2].split(',')
extra = sys.argv[3:]
def sh(cmd, cwd=None):
    return subprocess.run(cmd, cwd=cwd, shell=True, stdout=subprocess.PIPE, stderr=subprocess.STDOUT, text=True)
st = sh('git status --porcelain', '/repo').stdout.strip()
assert not st, '/repo is dirty: ' + st
r = sh('git apply %s' % patch, '/repo')
assert r.returncode == 0, r.stdout
out = []
try:
    for p in props:
        env = 'VERIF_HARNESS_TIMEOUT=6m VERIF_REPLAY_CAP=0'
        r = sh('%s ./check %s %s' % (env, p, ' '.join(extra)), '/verif')
        viol = re.findall(r'^VIOLATION property=\S+ replay=\S+ obligation=(\S+)', r.stdout, re.M)
        und = re.findall(r'^UNDECIDED .*$', r.stdout, re.M)
        summ = re.findall(r'^SUMMARY .*$', r.stdout, re.M)
        out.append(dict(property=p, exit=r.returncode, violations=viol, undecided=und[:3], summary=summ[-1] if summ else ''))
finally:
    sh('git checkout -- .', '/repo')
print(json.dumps(out))
