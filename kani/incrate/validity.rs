// C05 U3 / C16 U3 (bounded: masks of up to 20 entries): Validity as an abstract Seq<bool>.
// Every operation changes exactly the addressed entry (whole-view postcondition: a neighbour bit flipped by a wrong
// mask or shift fails), starting from any of the three representations; indices stay inside the byte buffer.
use super::*;

//@fn arrays/array/validity.rs Validity::{new_all_valid, new_all_invalid, len, is_valid, set_valid, set_invalid, all_valid, select}
//@fn arrays/bitmap/view.rs BitmapView::{value, all_true}, BitmapViewMut::{set, unset}, num_bytes_for_bitmap

const N: usize = 20;

/// a validity of symbolic length <= N in a symbolic representation with symbolic content; returns its view
fn any_validity() -> (Validity, [bool; N], usize) {
    let len: usize = kani::any();
    kani::assume(len >= 1 && len <= N);
    let kind: u8 = kani::any();
    kani::assume(kind < 3);
    let mut view = [false; N];
    let v = match kind {
        0 => {
            let mut i = 0;
            while i < N {
                view[i] = i < len;
                i += 1;
            }
            Validity::new_all_valid(len)
        }
        1 => Validity::new_all_invalid(len),
        _ => {
            let bytes: [u8; 3] = kani::any();
            let mut i = 0;
            while i < N {
                view[i] = i < len && (bytes[i / 8] >> (i % 8)) & 1 == 1;
                i += 1;
            }
            Validity { inner: ValidityInner::Mask { len, data: bytes[..num_bytes_for_bitmap(len)].to_vec() } }
        }
    };
    (v, view, len)
}

#[kani::proof]
#[kani::unwind(22)]
fn c05c16_validity__set_get_whole_view__bnd() {
    let (mut v, mut view, len) = any_validity();
    assert!(v.len() == len);
    let idx: usize = kani::any();
    kani::assume(idx < len);
    kani::cover!(idx == 9 && len == 20);
    assert!(v.is_valid(idx) == view[idx], "is_valid disagrees with the view");
    let make_valid: bool = kani::any();
    if make_valid {
        v.set_valid(idx);
    } else {
        v.set_invalid(idx);
    }
    view[idx] = make_valid;
    assert!(v.len() == len, "length changed");
    let mut i = 0;
    let mut all = true;
    while i < N {
        if i < len {
            assert!(v.is_valid(i) == view[i], "an entry other than the addressed one changed, or the addressed one did not");
            all = all && view[i];
        }
        i += 1;
    }
    assert!(v.all_valid() == all, "all_valid disagrees with the view");
}

// select: output entry j is the input entry sel[j]
#[kani::proof]
#[kani::unwind(22)]
fn c05_validity__select__bnd() {
    let (v, view, len) = any_validity();
    let sel: [usize; 3] = kani::any();
    kani::assume(sel[0] < len && sel[1] < len && sel[2] < len);
    kani::cover!(sel[0] != sel[1]);
    let out = v.select(sel);
    assert!(out.len() == 3);
    assert!(out.is_valid(0) == view[sel[0]] && out.is_valid(1) == view[sel[1]] && out.is_valid(2) == view[sel[2]], "select permutes validity wrongly");
}

include!("/verif/build/kani-gen/validity.playback.rs");
