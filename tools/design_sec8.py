#!/usr/bin/env python3
"""(Re)write section 8 of DESIGN.md from /tmp/x/sec8_head.md-style fragments kept in tools/sec8_head.md / sec8_tail.md and
seeded/TABLE.md (written by collect_seeds.py)."""
import os, re
V = os.path.dirname(os.path.dirname(os.path.abspath(__file__)))
p = os.path.join(V, 'DESIGN.md')
s = open(p).read()
head = open(os.path.join(V, 'tools', 'sec8_head.md')).read()
tail = open(os.path.join(V, 'tools', 'sec8_tail.md')).read()
table = open(os.path.join(V, 'seeded', 'TABLE.md')).read()
i = s.find('\n## 8. Seeded changes')
if i >= 0:
    s = s[:i]
s = s.rstrip('\n') + '\n' + head + table + tail
open(p, 'w').write(s)
print('section 8 written,', table.count('\n') - 2, 'rows')
