// C13 U4/U5 (bounded stand-in, native; NOT a proof): DECIMAL <-> text.
//   parse     for every decimal literal  [sign] d{0..3} [ . d{0..3} ]  over the digits {0, 4, 5, 9} and every target
//             DECIMAL(p, s) of a grid (0 <= s <= p <= 4, plus (18, 4) and (38, 10) for i64 / i128 storage):
//             the result is the literal scaled by 10^s and rounded HALF AWAY FROM ZERO when that has at most p digits,
//             otherwise the parse is rejected -- never a truncated, wrapped or over-long value;
//   totality  digit strings of 19..300 digits (beyond every accumulator) are rejected or parsed, never a trap / wrap;
//   round trip  format(v) parses back to v for every v with |v| < 10^p (exhaustive for p <= 4, boundary values above).
// `&str` byte loops + num_traits generics: CBMC needs an unwinding bound per input length and Verus has no byte-level
// `str` reasoning, so the real functions are executed.  Negative scales are not covered (not decided).
use super::*;
use crate::functions::cast::format::{DecimalFormatter, Formatter};

//@fn functions/cast/parse.rs impl Parser for DecimalParser<T> :: parse
//@fn functions/cast/format.rs impl Formatter for DecimalFormatter<T> :: write

/// literal = (-1)^neg * digits(int ++ frac) / 10^len(frac); result for DECIMAL(p, s) by the property's rule
fn spec_parse(neg: bool, int: &str, frac: &str, p: u32, s: u32) -> Option<i128> {
    let mut num: i128 = 0;
    for c in int.chars().chain(frac.chars()) {
        num = num * 10 + (c as u8 - b'0') as i128;
    }
    let f = frac.len() as u32;
    // num / 10^f * 10^s, rounded half away from zero
    let v = if s >= f {
        num * 10i128.pow(s - f)
    } else {
        let d = 10i128.pow(f - s);
        let (q, r) = (num / d, num % d);
        if 2 * r >= d { q + 1 } else { q }
    };
    if v >= 10i128.pow(p) {
        return None;
    }
    Some(if neg { -v } else { v })
}

fn digit_strings(max: usize) -> Vec<String> {
    let mut all = vec![String::new()];
    let mut frontier = vec![String::new()];
    for _ in 0..max {
        let mut next = Vec::new();
        for w in &frontier {
            for c in ['0', '4', '5', '9'] {
                next.push(format!("{w}{c}"));
            }
        }
        all.extend(next.iter().cloned());
        frontier = next;
    }
    all
}

#[test]
fn c13_decimal_text__parse_rounds_half_away_or_rejects__nat() {
    let ints = digit_strings(3);
    let fracs = digit_strings(3);
    let mut grid: Vec<(u8, i8)> = Vec::new();
    for p in 1..=4u8 {
        for s in 0..=p as i8 {
            grid.push((p, s));
        }
    }
    let mut cases = 0usize;
    for (sign, neg) in [("", false), ("-", true), ("+", false)] {
        for int in &ints {
            for frac in &fracs {
                if int.is_empty() && frac.is_empty() {
                    continue;
                }
                let forms: Vec<String> = if frac.is_empty() { vec![format!("{sign}{int}"), format!("{sign}{int}.")] } else { vec![format!("{sign}{int}.{frac}")] };
                for text in forms {
                    for &(p, s) in &grid {
                        let want = spec_parse(neg, int, frac, p as u32, s as u32);
                        let got = std::panic::catch_unwind(|| DecimalParser::<i64>::new(p, s).parse(&text));
                        match got {
                            Ok(g) => assert!(
                                g.map(|v| v as i128) == want,
                                "'{text}'::DECIMAL({p},{s}) parses to {g:?}; exact-or-round-half-away-or-error gives {want:?}"
                            ),
                            Err(_) => panic!("'{text}'::DECIMAL({p},{s}) panics"),
                        }
                        cases += 1;
                    }
                    for &(p, s) in &[(18u8, 4i8), (38, 10)] {
                        let want = spec_parse(neg, int, frac, p as u32, s as u32);
                        let got = std::panic::catch_unwind(|| DecimalParser::<i128>::new(p, s).parse(&text));
                        match got {
                            Ok(g) => assert!(g == want, "'{text}'::DECIMAL({p},{s}) parses to {g:?}; exact-or-round-half-away-or-error gives {want:?}"),
                            Err(_) => panic!("'{text}'::DECIMAL({p},{s}) panics"),
                        }
                        cases += 1;
                    }
                }
            }
        }
    }
    assert!(cases > 100_000);
}

#[test]
fn c13c15_decimal_text__long_digit_strings_rejected_not_trapped__nat() {
    for n in [19usize, 20, 38, 39, 40, 127, 128, 255, 256, 257, 300] {
        for d in ['1', '9'] {
            let digits: String = std::iter::repeat(d).take(n).collect();
            for text in [digits.clone(), format!("-{digits}"), format!("0.{digits}"), format!("{digits}.{digits}"), format!("000{digits}")] {
                // i64 storage, DECIMAL(18, 4); i128 storage, DECIMAL(38, 10)
                let r64 = std::panic::catch_unwind(|| DecimalParser::<i64>::new(18, 4).parse(&text));
                let r128 = std::panic::catch_unwind(|| DecimalParser::<i128>::new(38, 10).parse(&text));
                let int_digits = if text.contains('.') && text.starts_with("0.") { 0 } else { n };
                match r64 {
                    Err(_) => panic!("a {}-character decimal literal traps in DECIMAL(18,4) parsing (arithmetic overflow) instead of being rejected", text.len()),
                    Ok(Some(v)) => assert!(int_digits <= 14 && (v as i128).abs() < 10i128.pow(18), "a literal with {int_digits} integer digits is accepted as DECIMAL(18,4) = {v}"),
                    Ok(None) => assert!(int_digits > 14 || true),
                }
                match r128 {
                    Err(_) => panic!("a {}-character decimal literal traps in DECIMAL(38,10) parsing (arithmetic overflow) instead of being rejected", text.len()),
                    Ok(Some(v)) => assert!(int_digits <= 28 && v.abs() < 10i128.pow(38), "a literal with {int_digits} integer digits is accepted as DECIMAL(38,10) = {v}"),
                    Ok(None) => (),
                }
            }
        }
    }
}

#[test]
fn c13_decimal_text__format_then_parse_is_identity__nat() {
    let mut cases = 0usize;
    for p in 1..=4u8 {
        for s in 0..=p as i8 {
            let lim = 10i64.pow(p as u32);
            for v in (-lim + 1)..lim {
                let mut text = String::new();
                DecimalFormatter::<i64>::new(p, s).write(&v, &mut text).unwrap();
                let back = DecimalParser::<i64>::new(p, s).parse(&text);
                assert!(back == Some(v), "DECIMAL({p},{s}) value {v} formats as '{text}' which parses back to {back:?}");
                cases += 1;
            }
        }
    }
    for &(p, s) in &[(18u8, 0i8), (18, 4), (18, 18)] {
        let lim = 10i64.pow(18);
        for v in [0, 1, -1, 9, 10, lim - 1, -(lim - 1), lim / 10, -(lim / 10) - 1, 123456789012345678] {
            let mut text = String::new();
            DecimalFormatter::<i64>::new(p, s).write(&v, &mut text).unwrap();
            let back = DecimalParser::<i64>::new(p, s).parse(&text);
            assert!(back == Some(v), "DECIMAL({p},{s}) value {v} formats as '{text}' which parses back to {back:?}");
            cases += 1;
        }
    }
    for &(p, s) in &[(38u8, 0i8), (38, 10), (38, 38), (19, 2)] {
        let lim = 10i128.pow(p as u32);
        for v in [0, 1, -1, lim - 1, -(lim - 1), lim / 10, -(lim / 10) - 1, 12345678901234567890123456789012345678i128 % lim] {
            let mut text = String::new();
            DecimalFormatter::<i128>::new(p, s).write(&v, &mut text).unwrap();
            let back = DecimalParser::<i128>::new(p, s).parse(&text);
            assert!(back == Some(v), "DECIMAL({p},{s}) value {v} formats as '{text}' which parses back to {back:?}");
            cases += 1;
        }
    }
    assert!(cases > 20_000);
}

// C13 (bounded stand-in, native): INTERVAL text round trip.  Every interval of a small family (months in {0, 1, 13, 25},
// days in {0, 1, 2, 40}, time of day in {0, 1 s, 5 ms, 50 ms, 500 ms, 1 h 1 min 1 s, 23 h 59 min 59.999 s}) is formatted
// by IntervalFormatter (CAST(interval AS TEXT)) and parsed back by IntervalParser (CAST(text AS INTERVAL)); the result
// must be the interval we started from.  Failures are collected and reported together (known finding, see
// known_findings.json): the formatter's output language ("1 year 2 mons 3 days 01:01:01.5") is not the parser's input
// language ("<number> <unit>" pairs), and milliseconds are written without zero padding.
#[test]
fn c13_interval_text__format_then_parse_is_identity__nat() {
    use crate::arrays::scalar::interval::Interval;
    use crate::functions::cast::format::{Formatter as _, IntervalFormatter};
    let ms = Interval::NANOSECONDS_IN_MILLISECOND;
    let s = Interval::NANOSECONDS_IN_SECOND;
    let times = [0, s, 5 * ms, 50 * ms, 500 * ms, 3600 * s + 60 * s + s, 23 * 3600 * s + 59 * 60 * s + 59 * s + 999 * ms];
    let mut total = 0usize;
    let mut bad: Vec<String> = Vec::new();
    let mut texts = std::collections::BTreeMap::<String, Interval>::new();
    for months in [0, 1, 13, 25] {
        for days in [0, 1, 2, 40] {
            for nanos in times {
                let v = Interval { months, days, nanos };
                let mut text = String::new();
                IntervalFormatter.write(&v, &mut text).unwrap();
                total += 1;
                // two different intervals must not share a text
                if let Some(other) = texts.insert(text.clone(), v) {
                    if other != v {
                        bad.push(format!("{v:?} and {other:?} are both written as '{text}'"));
                    }
                }
                let back = IntervalParser::default().parse(&text);
                if back != Some(v) {
                    bad.push(format!("{v:?} is written as '{text}', which parses back to {back:?}"));
                }
            }
        }
    }
    assert!(total == 112);
    if !bad.is_empty() {
        panic!("KNOWN-SHAPE INTERVAL text round trip: {} of {} intervals do not survive CAST(CAST(i AS TEXT) AS INTERVAL); first: {}", bad.len(), total, bad[0]);
    }
}

//@fn functions/cast/format.rs impl Formatter for IntervalFormatter :: write
//@fn functions/cast/parse.rs impl Parser for IntervalParser :: parse

// C13 / C15 (bounded stand-in, native; NOT a proof): text -> DECIMAL with a NEGATIVE scale (DECIMAL(p, -k) stores
// multiples of 10^k; the parser and the resolver admit any i8 scale).  For scales -128, -127, -39, -38, -19, -18, -5, -2,
// -1, precisions 1, 3, 18, 38 and 14 digit strings (fewer digits than the scale drops, exactly as many, more; signs; a
// fraction; a string longer than the storage type) `DecimalParser::parse` returns a value or None without panicking
// (no underflow of the digit count, no overflow of the divisor), and a returned value v stands for v * 10^k within one
// unit of 10^k of the text's value.
#[test]
fn c13c15_decimal_text__negative_scales_value_or_none_never_panic__nat() {
    let texts = ["0", "5", "50", "149", "150", "-150", "+199", "12345", "99999", "1.5", "250.75", "-0.4", "123456789012345678", "99999999999999999999999999999999999999999"];
    let mut cases = 0usize;
    let mut values = 0usize;
    for s in [-128i8, -127, -39, -38, -19, -18, -5, -2, -1] {
        for p in [1u8, 3, 18, 38] {
            for text in texts {
                let r64 = std::panic::catch_unwind(|| DecimalParser::<i64>::new(p, s).parse(text));
                let r128 = std::panic::catch_unwind(|| DecimalParser::<i128>::new(p, s).parse(text));
                let what = format!("CAST('{text}' AS DECIMAL({p}, {s}))");
                let (v64, v128) = match (r64, r128) {
                    (Ok(a), Ok(b)) => (a, b),
                    _ => panic!("parsing a decimal with a negative scale panics: {what}"),
                };
                // the value the text denotes, when it fits f64 comfortably (all family members except the last do)
                if let Ok(t) = text.parse::<f64>() {
                    let k = s.unsigned_abs() as i32;
                    for v in [v64.map(|v| v as f64), v128.map(|v| v as f64)].into_iter().flatten() {
                        values += 1;
                        if k <= 30 && t.abs() < 1e30 {
                            let unit = 10f64.powi(k);
                            assert!((v * unit - t).abs() <= unit * 1.000001, "{what} gives {v} x 10^{k}, more than one unit of 10^{k} away from {t}");
                        } else {
                            assert!(v == 0.0 || t.abs() >= 1e30, "{what} gives {v} x 10^{k} for a text worth {t}");
                        }
                    }
                }
                cases += 1;
            }
        }
    }
    assert!(cases == 9 * 4 * 14 && values > 100);
}

// C13 (bounded stand-in, native; NOT a proof): TIMESTAMP -> text names the instant the value stands for, in every unit.
// For seconds, milliseconds, microseconds and nanoseconds and ~60 tick counts per unit (0, +-1, +-999, +-1000, +-1001,
// +-1200, half seconds, day and year boundaries before and after 1970, leap days, 0001-01-01, 9999-12-31) the
// formatter's text equals the civil date and time computed independently (floor division of the tick count, days ->
// civil date by the proleptic Gregorian calendar) with the fraction printed as 0, 3, 6 or 9 digits.
#[test]
fn c13_timestamp_text__names_the_instant_in_every_unit__nat() {
    use crate::functions::cast::format::{
        Formatter,
        TimestampMicrosecondsFormatter,
        TimestampMillisecondsFormatter,
        TimestampNanosecondsFormatter,
        TimestampSecondsFormatter,
    };
    // days since 1970-01-01 -> (year, month, day), proleptic Gregorian
    fn civil(z: i64) -> (i64, i64, i64) {
        let z = z + 719_468;
        let era = z.div_euclid(146_097);
        let doe = z.rem_euclid(146_097);
        let yoe = (doe - doe / 1460 + doe / 36_524 - doe / 146_096) / 365;
        let y = yoe + era * 400;
        let doy = doe - (365 * yoe + yoe / 4 - yoe / 100);
        let mp = (5 * doy + 2) / 153;
        let d = doy - (153 * mp + 2) / 5 + 1;
        let m = if mp < 10 { mp + 3 } else { mp - 9 };
        (if m <= 2 { y + 1 } else { y }, m, d)
    }
    fn expected(ticks: i64, per_sec: i64) -> String {
        let secs = ticks.div_euclid(per_sec);
        let nanos = ticks.rem_euclid(per_sec) * (1_000_000_000 / per_sec);
        let (y, mo, d) = civil(secs.div_euclid(86_400));
        let sod = secs.rem_euclid(86_400);
        let frac = if nanos == 0 {
            String::new()
        } else if nanos % 1_000_000 == 0 {
            format!(".{:03}", nanos / 1_000_000)
        } else if nanos % 1_000 == 0 {
            format!(".{:06}", nanos / 1_000)
        } else {
            format!(".{:09}", nanos)
        };
        format!("{y:04}-{mo:02}-{d:02} {:02}:{:02}:{:02}{frac} UTC", sod / 3600, (sod / 60) % 60, sod % 60)
    }
    let mut cases = 0usize;
    for (unit, per_sec) in [("s", 1i64), ("ms", 1_000), ("us", 1_000_000), ("ns", 1_000_000_000)] {
        let mut ticks: Vec<i64> = vec![0, 1, -1, 999, -999, 1000, -1000, 1001, -1001, 1200, -1200, 1500, -1500, 123_456_789, -123_456_789];
        for secs in [
            0i64, 1, -1, 59, -59, 60, -60, 86_399, -86_399, 86_400, -86_400, -86_401, 951_782_400 /* 2000-02-29 */, 951_868_799, 1_709_164_800 /* 2024-02-29 */,
            -2_208_988_800 /* 1900-01-01 */, -2_203_891_200 /* 1900-03-01 */, -62_135_596_800 /* 0001-01-01 */, 253_402_300_799 /* 9999-12-31 23:59:59 */, -11_644_473_600, 4_102_444_800,
        ] {
            if let Some(t) = secs.checked_mul(per_sec) {
                ticks.push(t);
                for off in [1i64, -1, per_sec / 2, -(per_sec / 2), per_sec / 5, -(per_sec / 5)] {
                    if off != 0 {
                        if let Some(t2) = t.checked_add(off) {
                            ticks.push(t2);
                        }
                    }
                }
            }
        }
        ticks.sort();
        ticks.dedup();
        for t in ticks {
            let secs = t.div_euclid(per_sec);
            if !(-62_135_596_800..=253_402_300_799).contains(&secs) {
                continue; // years 1..=9999 only
            }
            let mut got = String::new();
            let ok = match unit {
                "s" => TimestampSecondsFormatter::default().write(&t, &mut got),
                "ms" => TimestampMillisecondsFormatter::default().write(&t, &mut got),
                "us" => TimestampMicrosecondsFormatter::default().write(&t, &mut got),
                _ => TimestampNanosecondsFormatter::default().write(&t, &mut got),
            };
            let want = expected(t, per_sec);
            assert!(ok.is_ok(), "formatting TIMESTAMP({unit}) {t} failed, it stands for {want}");
            assert!(got == want, "TIMESTAMP({unit}) value {t} is printed as `{got}`, the instant it stands for is `{want}`");
            cases += 1;
        }
    }
    assert!(cases > 300, "{cases}");
}

include!("/verif/build/kani-gen/cast_parse.playback.rs");
