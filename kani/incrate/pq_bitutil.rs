// C10 U1-U3,U5 (valid input, bounded by operand width / 9 bytes) and C19 U1-U2 (arbitrary bytes and header values):
// zigzag, unsigned VLQ (LEB128), bit unpacking incl. resumability, BitPackEncodeable::from_u64.
use super::*;

//@fn column/bitutil.rs zigzag_decode, zigzag_encode
//@fn column/bitutil.rs read_unsigned_vlq
//@fn column/bitutil.rs bit_unpack::<u8|u16|u32|u64>
//@fn column/bitutil.rs BitPackEncodeable::from_u64
//@fn column/read_buffer.rs ReadCursor::{from_slice, remaining, read_next_unchecked, peek_next_unchecked}

fn stub_format(_: std::fmt::Arguments<'_>) -> String {
    String::new()
}
fn stub_backtrace_capture() -> std::backtrace::Backtrace {
    std::backtrace::Backtrace::disabled()
}
fn stub_dberror_new(msg: impl Into<String>) -> glaredb_error::DbError {
    std::mem::forget(msg);
    unsafe { std::mem::transmute::<usize, glaredb_error::DbError>(16usize) }
}

#[kani::proof]
fn c10_zigzag__roundtrip_def() {
    let x: i64 = kani::any();
    let n: u64 = kani::any();
    kani::cover!(x < 0);
    assert!(zigzag_decode(zigzag_encode(x)) == x, "zigzag decode(encode(x)) != x");
    // definition: even -> n/2, odd -> -(n+1)/2
    let expect = if n & 1 == 0 { (n >> 1) as i64 } else { -((n >> 1) as i64) - 1 };
    assert!(zigzag_decode(n) == expect, "zigzag_decode differs from its definition");
}

#[kani::proof]
fn c10_from_u64__truncates() {
    let v: u64 = kani::any();
    kani::cover!(v > u32::MAX as u64);
    assert!(<u8 as BitPackEncodeable>::from_u64(v) == v as u8);
    assert!(<u16 as BitPackEncodeable>::from_u64(v) == v as u16);
    assert!(<u32 as BitPackEncodeable>::from_u64(v) == v as u32);
    assert!(<u64 as BitPackEncodeable>::from_u64(v) == v);
    assert!(<i8 as BitPackEncodeable>::from_u64(v) == v as i8);
    assert!(<i16 as BitPackEncodeable>::from_u64(v) == v as i16);
    assert!(<i32 as BitPackEncodeable>::from_u64(v) == v as i32);
    assert!(<i64 as BitPackEncodeable>::from_u64(v) == v as i64);
}

// ---- VLQ, well-formed input: a terminator byte within the first 10 bytes ----
#[kani::proof]
#[kani::unwind(12)]
#[kani::stub(std::fmt::format, stub_format)]
#[kani::stub(std::backtrace::Backtrace::capture, stub_backtrace_capture)]
#[kani::stub(glaredb_error::DbError::new, stub_dberror_new)]
fn c10_vlq__leb128_value_and_advance__bnd() {
    let buf: [u8; 10] = kani::any();
    // k = index of the first byte without continuation bit
    let mut k = 10usize;
    let mut i = 0;
    while i < 10 {
        if k == 10 && buf[i] & 0x80 == 0 {
            k = i;
        }
        i += 1;
    }
    kani::assume(k < 10);
    kani::cover!(k == 9);
    kani::cover!(k == 0);
    let mut cursor = ReadCursor::from_slice(&buf[..]);
    let r = read_unsigned_vlq(&mut cursor);
    // specification: little-endian base-128 digits
    let mut expect: u64 = 0;
    let mut i = 0;
    while i < 10 {
        if i <= k {
            expect |= ((buf[i] & 0x7f) as u64) << ((7 * i) as u32 % 64);
        }
        i += 1;
    }
    match &r {
        Ok(v) => {
            assert!(*v == expect, "VLQ value differs from LEB128");
            assert!(cursor.remaining() == 10 - (k + 1), "cursor not advanced by exactly the bytes consumed");
        }
        Err(_) => assert!(false, "well-formed VLQ (<= 10 bytes) rejected"),
    }
    std::mem::forget(r);
}

// ---- VLQ, arbitrary input incl. truncated: never reads past `remaining` ----
#[kani::proof]
#[kani::unwind(12)]
#[kani::stub(std::fmt::format, stub_format)]
#[kani::stub(std::backtrace::Backtrace::capture, stub_backtrace_capture)]
#[kani::stub(glaredb_error::DbError::new, stub_dberror_new)]
fn c19_vlq__arbitrary_bytes_no_oob__bnd() {
    let buf: [u8; 11] = kani::any();
    let len: usize = kani::any();
    kani::assume(len <= 11);
    kani::cover!(len == 0);
    kani::cover!(len == 11);
    let mut cursor = ReadCursor::from_slice(&buf[..len]);
    let r = read_unsigned_vlq(&mut cursor);
    assert!(cursor.remaining() <= len, "cursor moved backwards / past the end");
    std::mem::forget(r);
}

// ---- bit_unpack: spec via a 128-bit little-endian window ----
fn window(buf: &[u8; 16]) -> u128 {
    u128::from_le_bytes(*buf)
}

macro_rules! unpack_one {
    ($name:ident, $t:ty) => {
        // one value of any width 0..=64 at any bit position 0..8
        #[kani::proof]
        #[kani::unwind(18)]
        #[kani::stub(std::fmt::format, stub_format)]
        #[kani::stub(std::backtrace::Backtrace::capture, stub_backtrace_capture)]
        #[kani::stub(glaredb_error::DbError::new, stub_dberror_new)]
        fn $name() {
            let buf: [u8; 16] = kani::any();
            let w: u8 = kani::any();
            let pos: u8 = kani::any();
            kani::assume(w <= 64 && pos < 8);
            kani::cover!(w == 64 && pos == 7);
            kani::cover!(w == 0);
            let mut state = BitUnpackState { bit_pos: pos, bit_width: w };
            let mut cursor = ReadCursor::from_slice(&buf[..]);
            let mut out: [$t; 1] = [0];
            let r = bit_unpack(&mut state, &mut cursor, &mut out[..]);
            let ok = r.is_ok();
            std::mem::forget(r);
            assert!(ok, "valid bit width rejected");
            let mask: u128 = if w == 0 { 0 } else { (1u128 << w) - 1 };
            let expect = ((window(&buf) >> pos) & mask) as u64;
            assert!(out[0] == <$t as BitPackEncodeable>::from_u64(expect), "unpacked value differs from the bit window");
            if w > 0 {
                let end = pos as usize + w as usize;
                assert!(state.bit_pos as usize == end % 8, "bit position after the read is wrong");
                assert!(cursor.remaining() == 16 - end / 8, "cursor not advanced by the whole bytes consumed");
            }
        }
    };
}
unpack_one!(c10_bit_unpack_u64__one_value_any_width__bnd, u64);
unpack_one!(c10_bit_unpack_u8__one_value_any_width__bnd, u8);
unpack_one!(c10_bit_unpack_u32__one_value_any_width__bnd, u32);

// resumability: unpack(1); unpack(1) with the carried state  ==  unpack(2)   (widths <= 20)
#[kani::proof]
#[kani::unwind(18)]
#[kani::stub(std::fmt::format, stub_format)]
#[kani::stub(std::backtrace::Backtrace::capture, stub_backtrace_capture)]
#[kani::stub(glaredb_error::DbError::new, stub_dberror_new)]
fn c10_bit_unpack__resume_equals_single_read__bnd() {
    let buf: [u8; 16] = kani::any();
    let w: u8 = kani::any();
    let pos: u8 = kani::any();
    kani::assume(w >= 1 && w <= 20 && pos < 8);
    kani::cover!(w == 3 && pos == 6);
    let mut s1 = BitUnpackState { bit_pos: pos, bit_width: w };
    let mut c1 = ReadCursor::from_slice(&buf[..]);
    let mut a: [u32; 2] = [0; 2];
    let r = bit_unpack(&mut s1, &mut c1, &mut a[..]);
    assert!(r.is_ok());
    std::mem::forget(r);
    let mut s2 = BitUnpackState { bit_pos: pos, bit_width: w };
    let mut c2 = ReadCursor::from_slice(&buf[..]);
    let mut b: [u32; 2] = [0; 2];
    let r = bit_unpack(&mut s2, &mut c2, &mut b[..1]);
    assert!(r.is_ok());
    std::mem::forget(r);
    let r = bit_unpack(&mut s2, &mut c2, &mut b[1..]);
    assert!(r.is_ok());
    std::mem::forget(r);
    assert!(a == b, "reading in two calls differs from reading in one");
    assert!(s1 == s2 && c1.remaining() == c2.remaining(), "state after two calls differs from the state after one");
    let mask: u128 = (1u128 << w) - 1;
    assert!(a[0] as u128 == (window(&buf) >> pos) & mask);
    assert!(a[1] as u128 == (window(&buf) >> (pos as u32 + w as u32)) & mask);
}

// ---- bit_unpack on arbitrary header values / truncated data (C19) ----
#[kani::proof]
#[kani::unwind(18)]
#[kani::stub(std::fmt::format, stub_format)]
#[kani::stub(std::backtrace::Backtrace::capture, stub_backtrace_capture)]
#[kani::stub(glaredb_error::DbError::new, stub_dberror_new)]
fn c19_bit_unpack__any_width_no_trap__bnd() {
    let buf: [u8; 16] = kani::any();
    let w: u8 = kani::any();
    let pos: u8 = kani::any();
    kani::assume(pos < 8);
    kani::cover!(w > 64);
    let mut state = BitUnpackState { bit_pos: pos, bit_width: w };
    let mut cursor = ReadCursor::from_slice(&buf[..]);
    let mut out: [u64; 1] = [0];
    let r = bit_unpack(&mut state, &mut cursor, &mut out[..]);
    if w > 64 {
        assert!(r.is_err(), "bit width above 64 accepted");
    }
    std::mem::forget(r);
}

#[kani::proof]
#[kani::unwind(18)]
#[kani::stub(std::fmt::format, stub_format)]
#[kani::stub(std::backtrace::Backtrace::capture, stub_backtrace_capture)]
#[kani::stub(glaredb_error::DbError::new, stub_dberror_new)]
fn c19_bit_unpack__truncated_no_oob__bnd() {
    let buf: [u8; 8] = kani::any();
    let len: usize = kani::any();
    let w: u8 = kani::any();
    kani::assume(len <= 8 && w >= 1 && w <= 32);
    kani::cover!(len == 0);
    kani::cover!(len == 8);
    let mut state = BitUnpackState { bit_pos: 0, bit_width: w };
    let mut cursor = ReadCursor::from_slice(&buf[..len]);
    let mut out: [u32; 2] = [0; 2];
    let r = bit_unpack(&mut state, &mut cursor, &mut out[..]);
    // needs 2*w bits
    let need = (2 * w as usize + 7) / 8;
    if need > len {
        assert!(r.is_err(), "values were produced from bytes past the end of the buffer");
    } else {
        assert!(r.is_ok());
    }
    assert!(cursor.remaining() <= len);
    std::mem::forget(r);
}

include!("/verif/build/kani-gen/pq_bitutil.playback.rs");
