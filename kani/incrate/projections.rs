// C11 U2 (bounded: 2 data + 1 metadata column): Projections::for_each_column visits every output position exactly once,
// in order, data columns first, metadata columns after them; wrong arity => error before any call.
use super::*;
use crate::arrays::datatype::DataType;
use crate::verif_kani::{stub_backtrace_capture, stub_dberror_new, stub_format};

//@fn storage/projections.rs Projections::for_each_column
//@fn storage/projections.rs Projections::{new_with_meta, physical_meta_indices, has_data_column}

#[kani::proof]
#[kani::unwind(5)]
#[kani::stub(std::fmt::format, stub_format)]
#[kani::stub(std::backtrace::Backtrace::capture, stub_backtrace_capture)]
#[kani::stub(glaredb_error::DbError::new, stub_dberror_new)]
fn c11_projections_for_each__position_mapping__bnd() {
    let d0: usize = kani::any();
    let d1: usize = kani::any();
    let m0: usize = kani::any();
    let proj = Projections::new_with_meta([d0, d1], [m0]);
    let mut out = Batch::new([DataType::int32(), DataType::int32(), DataType::int32()], 1).unwrap();
    let base = out.arrays.as_ptr() as usize;
    let stride = std::mem::size_of::<Array>();
    let mut calls: [Option<(ProjectedColumn, usize)>; 3] = [None; 3];
    let mut n = 0usize;
    let r = proj.for_each_column(&mut out, &mut |col, arr| {
        let pos = (arr as *const Array as usize - base) / stride;
        if n < 3 {
            calls[n] = Some((col, pos));
        }
        n += 1;
        Ok(())
    });
    let ok = r.is_ok();
    std::mem::forget(r);
    kani::cover!(ok);
    assert!(ok && n == 3, "every projected column must be visited exactly once");
    assert!(calls[0] == Some((ProjectedColumn::Data(d0), 0)), "first data column must map to output position 0");
    assert!(calls[1] == Some((ProjectedColumn::Data(d1), 1)), "second data column must map to output position 1");
    assert!(calls[2] == Some((ProjectedColumn::Metadata(m0), 2)), "metadata columns follow the data columns");
    std::mem::forget(out);
}

#[kani::proof]
#[kani::unwind(5)]
#[kani::stub(std::fmt::format, stub_format)]
#[kani::stub(std::backtrace::Backtrace::capture, stub_backtrace_capture)]
// (the real DbError::new here: the error path calls `.with_field(..)` on the error it built)
fn c11_projections_for_each__arity_error__bnd() {
    let proj = Projections::new_with_meta([kani::any::<usize>(), kani::any()], [kani::any::<usize>()]);
    let mut out = Batch::new([DataType::int32(), DataType::int32()], 1).unwrap();
    let mut n = 0usize;
    let r = proj.for_each_column(&mut out, &mut |_c, _a| {
        n += 1;
        Ok(())
    });
    let ok = r.is_ok();
    std::mem::forget(r);
    kani::cover!(true);
    assert!(!ok && n == 0, "arity mismatch must fail before any column is written");
    std::mem::forget(out);
}

include!("/verif/build/kani-gen/projections.playback.rs");
