// Shared helpers for the in-crate Kani harnesses (included from crates/glaredb_core/src/lib.rs
// under cfg(kani)).  Nothing here is part of a normal build.

use crate::arrays::array::physical_type::*;
use crate::arrays::array::validity::Validity;
use crate::arrays::executor::PutBuffer;

// Identity functions whose bounds are copied from the executor signatures
// (arrays/executor/scalar/{unary,binary,ternary}.rs): a closure passed through them is
// type-checked exactly as at the real call site.
pub(crate) fn un_kernel<S, O, F>(f: F) -> F
where
    S: ScalarStorage,
    O: MutableScalarStorage,
    for<'a> F: FnMut(&S::StorageType, PutBuffer<O::AddressableMut<'a>>),
{
    f
}

pub(crate) fn bin_kernel<S1, S2, O, F>(f: F) -> F
where
    S1: ScalarStorage,
    S2: ScalarStorage,
    O: MutableScalarStorage,
    for<'a> F: FnMut(&S1::StorageType, &S2::StorageType, PutBuffer<O::AddressableMut<'a>>),
{
    f
}

pub(crate) fn tern_kernel<S1, S2, S3, O, F>(f: F) -> F
where
    S1: ScalarStorage,
    S2: ScalarStorage,
    S3: ScalarStorage,
    O: MutableScalarStorage,
    for<'a> F: FnMut(
        &S1::StorageType,
        &S2::StorageType,
        &S3::StorageType,
        PutBuffer<O::AddressableMut<'a>>,
    ),
{
    f
}

pub(crate) fn uni_kernel<S, O, F>(f: F) -> F
where
    S: ScalarStorage,
    O: MutableScalarStorage,
    for<'a> F: FnMut(&[&S::StorageType], PutBuffer<O::AddressableMut<'a>>),
{
    f
}

/// One output slot written through the real `PutBuffer` / `PrimitiveSliceMut` / `Validity`.
/// `$call` is an expression using `$buf`.  Evaluates to `(value, is_valid)`.
macro_rules! with_put1 {
    ($t:ty, $init:expr, |$buf:ident| $call:expr) => {{
        let mut out: [$t; 1] = [$init];
        let mut validity = crate::arrays::array::validity::Validity::new_all_valid(1);
        {
            let mut slice = crate::arrays::array::physical_type::PrimitiveSliceMut { slice: &mut out[..] };
            let $buf = crate::arrays::executor::PutBuffer::new(0, &mut slice, &mut validity);
            $call;
        }
        (out[0], validity.is_valid(0))
    }};
}
pub(crate) use with_put1;

/// Stubs for the error path (DbError::new formats a message and captures a backtrace).
pub(crate) fn stub_format(_: std::fmt::Arguments<'_>) -> String {
    String::new()
}
pub(crate) fn stub_backtrace_capture() -> std::backtrace::Backtrace {
    std::backtrace::Backtrace::disabled()
}

/// 10^n for n <= 38 (spec helper).
pub(crate) const POW10: [i128; 39] = {
    let mut t = [1i128; 39];
    let mut i = 1;
    while i < 39 {
        t[i] = t[i - 1] * 10;
        i += 1;
    }
    t
};

/// Cheap stand-in for `DbError::new` on error paths whose *content* is irrelevant to the contract (only "an error was
/// reported" is).  The real constructor allocates a String, a Box with a `dyn Error` slot and captures a backtrace;
/// its construction and drop glue dominate CBMC time.  The value returned here must never be dropped or inspected:
/// harnesses `mem::forget` every `Result` they get back.  Listed in `trusted_base` of every unit that uses it.
pub(crate) fn stub_dberror_new(msg: impl Into<String>) -> glaredb_error::DbError {
    std::mem::forget(msg);
    // a DbError is one Box pointer; a dangling, aligned, non-null pointer that is never dereferenced
    unsafe { std::mem::transmute::<usize, glaredb_error::DbError>(16usize) }
}

/// The CONTRACT of `DecimalType::validate_precision`, proved against the real function by
/// `c13c15_validate_precision_{d64,d128}__def` / `__min_no_trap` (arrays/scalar/decimal.rs hook):
///     Ok  <=>  precision <= MAX_PRECISION  &&  |value| < 10^precision.
/// Callers (cast kernels) are verified against this contract instead of the body -- the modular step.
pub(crate) trait VpContract: crate::arrays::scalar::decimal::DecimalType {
    fn validate_precision_contract(value: Self::Primitive, precision: u8) -> glaredb_error::Result<()> {
        let v: i128 = num_traits::ToPrimitive::to_i128(&value).unwrap();
        if precision <= Self::MAX_PRECISION && v.unsigned_abs() < POW10[precision as usize] as u128 {
            Ok(())
        } else {
            Err(stub_dberror_new(""))
        }
    }
}
impl<D: crate::arrays::scalar::decimal::DecimalType> VpContract for D {}


pub(crate) fn stub_dberror_with_source(msg: impl Into<String>, source: Box<dyn std::error::Error + Send + Sync>) -> glaredb_error::DbError {
    std::mem::forget(msg);
    std::mem::forget(source);
    unsafe { std::mem::transmute::<usize, glaredb_error::DbError>(16usize) }
}
include!("/verif/build/kani-gen/core_root.playback.rs");
