// C17 U3 (bounded stand-in, native; NOT a proof): CSV type inference gives every column "the narrowest of boolean,
// integer, float, text that fits the sampled values".  `CsvSchema::infer_from_records` is run on every sample of a header
// row plus 1..=3 data rows whose single field is drawn from {empty, true, false, 5, -7, 6.5, 1e3, x}: the inferred type
// must be the narrowest T in (BOOLEAN, BIGINT, DOUBLE, TEXT) such that EVERY non-empty sampled value parses as T (the
// reader parses every field with the inferred type, so a narrower answer makes the read fail and a wider one loses the
// type); samples with only empty values are skipped.  Order of the values must not matter.
use glaredb_core::arrays::datatype::DataTypeId;

use super::*;
use crate::decoder::CsvDecoder;
use crate::dialect::DialectOptions;

//@fn schema.rs CsvSchema::infer_from_records, CandidateType::{update_from_input, is_valid}

#[test]
fn c17_csv_infer__narrowest_type_that_fits_all_samples__nat() {
    let dom = ["", "true", "false", "5", "-7", "6.5", "1e3", "x"];
    let is_bool = |v: &str| v == "true" || v == "false";
    let is_int = |v: &str| v.parse::<i64>().is_ok();
    let is_float = |v: &str| v.parse::<f64>().is_ok();
    let mut samples: Vec<Vec<&str>> = Vec::new();
    for a in dom {
        samples.push(vec![a]);
        for b in dom {
            samples.push(vec![a, b]);
            for c in dom {
                samples.push(vec![a, b, c]);
            }
        }
    }
    let mut cases = 0usize;
    for vals in samples {
        let non_empty: Vec<&str> = vals.iter().copied().filter(|v| !v.is_empty()).collect();
        if non_empty.is_empty() {
            continue;
        }
        let want = if non_empty.iter().all(|v| is_bool(v)) {
            DataTypeId::Boolean
        } else if non_empty.iter().all(|v| is_int(v)) {
            DataTypeId::Int64
        } else if non_empty.iter().all(|v| is_float(v)) {
            DataTypeId::Float64
        } else {
            DataTypeId::Utf8
        };
        // two columns so that an empty field does not make an empty line; the first column is a fixed text column
        let mut text = String::from("name,val\n");
        for v in &vals {
            text.push_str("k,");
            text.push_str(v);
            text.push('\n');
        }
        let mut decoder = CsvDecoder::new(DialectOptions::default());
        let mut records = ByteRecords::with_buffer_capacity(16);
        let _ = decoder.decode(text.as_bytes(), &mut records);
        let schema = CsvSchema::infer_from_records(&records).unwrap();
        let got = schema.schema.fields[1].datatype.id();
        assert!(
            got == want,
            "CSV column sampled as {vals:?} is inferred as {got:?}; the narrowest type that fits every sampled value is {want:?}"
        );
        cases += 1;
    }
    assert!(cases > 500);
}
include!("/verif/build/kani-gen/csv_infer.playback.rs");
