// C10 (bounded stand-in, native; NOT a proof): the Parquet dictionary page state and the dictionary-index decoder.
// Contract of `Dictionary::prepare_with_values(n, page)`, whatever was prepared before:
//     slots 0..n hold the n page values and are valid, slot `logical_len - 1` (the slot `read` uses for NULL) is invalid.
// Contract of `DictionaryDecoder::read`: output row r is NULL iff definition level r < max, otherwise it is
// dictionary[index_k] for the k-th non-NULL row.
// Arrays / buffer manager are out of CBMC's reach, so the real code is run on every sequence of three dictionary pages
// with sizes in 0..=4 (any earlier page size can precede any later one), then one data page per dictionary with every
// definition-level pattern of 4 rows.
use glaredb_core::arrays::scalar::BorrowedScalarValue;
use glaredb_core::buffer::buffer_manager::DefaultBufferManager;

use super::*;
use crate::column::value_reader::primitive::PlainInt32ValueReader;

//@fn column/encoding/dictionary.rs Dictionary::prepare_with_values, DictionaryDecoder::read

fn page_bytes(vals: &[i32]) -> Vec<u8> {
    vals.iter().flat_map(|v| v.to_le_bytes()).collect()
}

/// RLE/bit-packed hybrid: one bit-packed group of 8 indices, bit width 3.
fn index_bytes(idx: &[u32]) -> Vec<u8> {
    let mut word: u32 = 0;
    for (k, &i) in idx.iter().enumerate() {
        word |= (i & 7) << (3 * k);
    }
    vec![(1 << 1) | 1, word as u8, (word >> 8) as u8, (word >> 16) as u8]
}

#[test]
fn c10_dictionary__page_state_and_index_read__nat() {
    let mut cases = 0usize;
    for n1 in 0..=4usize {
        for n2 in 0..=4usize {
            for n3 in 0..=4usize {
                let mut dict = Dictionary::<PlainInt32ValueReader>::try_empty(&DefaultBufferManager, DataType::int32()).unwrap();
                for (round, n) in [n1, n2, n3].into_iter().enumerate() {
                    let vals: Vec<i32> = (0..n as i32).map(|v| 100 * (round as i32 + 1) + v).collect();
                    let bytes = page_bytes(&vals);
                    dict.prepare_with_values(n, ReadCursor::from_slice(&bytes)).unwrap();
                    for i in 0..n {
                        match dict.dictionary.get_value(i).unwrap() {
                            BorrowedScalarValue::Int32(v) => assert!(v == vals[i], "dictionary sizes ({n1},{n2},{n3}): slot {i} of page {round} holds a stale value"),
                            _ => panic!("dictionary sizes ({n1},{n2},{n3}): slot {i} of page {round} is NULL"),
                        }
                    }
                    let null_idx = dict.dictionary.logical_len() - 1;
                    assert!(null_idx >= n, "dictionary sizes ({n1},{n2},{n3}): NULL slot overlaps the values");
                    assert!(matches!(dict.dictionary.get_value(null_idx).unwrap(), BorrowedScalarValue::Null), "dictionary sizes ({n1},{n2},{n3}): the NULL slot of page {round} is valid");
                    if n == 0 {
                        continue;
                    }
                    // one data page of 4 rows, every definition pattern
                    for pattern in 0..16u8 {
                        let levels: Vec<i16> = (0..4).map(|r| ((pattern >> r) & 1) as i16).collect();
                        let idx: Vec<u32> = (0..8u32).map(|k| (k * 3 + pattern as u32) % n as u32).collect();
                        let ib = index_bytes(&idx);
                        let rle = RleBitPackedDecoder::new(ReadCursor::from_slice(&ib), 3);
                        let mut dec = DictionaryDecoder::<PlainInt32ValueReader>::new(rle);
                        let mut out = Array::new(&DefaultBufferManager, DataType::int32(), 4).unwrap();
                        dec.read(&dict, Definitions::HasDefinitions { levels: &levels, max: 1 }, &mut out, 0, 4).unwrap();
                        let mut k = 0usize;
                        for r in 0..4 {
                            if levels[r] == 1 {
                                match out.get_value(r).unwrap() {
                                    BorrowedScalarValue::Int32(v) => assert!(v == vals[idx[k] as usize], "sizes ({n1},{n2},{n3}) page {round} pattern {pattern:04b}: row {r} is not dictionary[{}]", idx[k]),
                                    _ => panic!("sizes ({n1},{n2},{n3}) page {round} pattern {pattern:04b}: row {r} is NULL but its definition level says present"),
                                }
                                k += 1;
                            } else {
                                assert!(matches!(out.get_value(r).unwrap(), BorrowedScalarValue::Null), "sizes ({n1},{n2},{n3}) page {round} pattern {pattern:04b}: row {r} should be NULL");
                            }
                        }
                        cases += 1;
                    }
                }
            }
        }
    }
    assert!(cases > 3000);
}

include!("/verif/build/kani-gen/pq_dictionary.playback.rs");
