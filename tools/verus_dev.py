#!/usr/bin/env python3
"""Development helper: run one Verus unit against a given repo copy without the driver.
usage: VERIF_REPO=/tmp/repo_clean verus_dev.py <unit name>"""
import sys, os, json
sys.path.insert(0, '/verif/units'); sys.path.insert(0, '/verif/extract')
import verus_units as v
name = sys.argv[1]
units = []
for prop in ['C%02d' % i for i in range(1, 21)]:
    for u in v.discover(prop, 'thorough', name):
        if u['name'] not in [x['name'] for x in units]:
            units.append(u)
for r in v.run_units(units, 'thorough'):
    print(json.dumps({k: r[k] for k in r if k in ('name', 'obligations', 'problems', 'verus_verified', 'verus_errors')}, indent=1))
    if r.get('stderr'):
        print(r['stderr'][-2500:])
