// C10 U7 (bounded stand-in, native): DELTA_BINARY_PACKED value decoder.  Streams are produced by a small reference
// ENCODER written from the format specification (block of 128 values = 4 miniblocks of 32, zigzag ULEB128 header, one
// bit width per miniblock); the real decoder must return the encoded values, and reading in two calls at EVERY split
// point (mid-miniblock, at the miniblock edge, after the first value) must give the same values as a single read.
use super::*;

//@fn column/encoding/delta_binary_packed.rs DeltaBinaryPackedValueDecoder::<i64>::{try_new, read, load_next_block}

fn uleb(mut v: u64, out: &mut Vec<u8>) {
    loop {
        let b = (v & 0x7f) as u8;
        v >>= 7;
        if v == 0 {
            out.push(b);
            break;
        }
        out.push(b | 0x80);
    }
}
fn zigzag(v: i64) -> u64 {
    ((v << 1) ^ (v >> 63)) as u64
}

/// reference encoder (one or two blocks of 128 values, 4 miniblocks each)
fn encode(values: &[i64]) -> Vec<u8> {
    let mut out = Vec::new();
    uleb(128, &mut out);
    uleb(4, &mut out);
    uleb(values.len() as u64, &mut out);
    uleb(zigzag(values.first().copied().unwrap_or(0)), &mut out);
    let deltas: Vec<i64> = values.windows(2).map(|w| w[1].wrapping_sub(w[0])).collect();
    for block in deltas.chunks(128) {
        let min_delta = *block.iter().min().unwrap();
        uleb(zigzag(min_delta), &mut out);
        let mut widths = [0u8; 4];
        let adj: Vec<u64> = block.iter().map(|d| d.wrapping_sub(min_delta) as u64).collect();
        for (mi, mb) in adj.chunks(32).enumerate() {
            let max = mb.iter().copied().max().unwrap_or(0);
            widths[mi] = (64 - max.leading_zeros()) as u8;
        }
        out.extend_from_slice(&widths);
        for (mi, mb) in adj.chunks(32).enumerate() {
            let w = widths[mi] as u32;
            if w == 0 {
                continue;
            }
            // pad the miniblock to 32 values
            let mut bits: Vec<bool> = Vec::new();
            for k in 0..32 {
                let v = mb.get(k).copied().unwrap_or(0);
                for b in 0..w {
                    bits.push((v >> b) & 1 == 1);
                }
            }
            for byte in bits.chunks(8) {
                let mut x = 0u8;
                for (i, &bit) in byte.iter().enumerate() {
                    if bit {
                        x |= 1 << i;
                    }
                }
                out.push(x);
            }
        }
    }
    out
}

fn decode_split(stream: &[u8], n: usize, split: usize) -> Vec<i64> {
    let mut dec = DeltaBinaryPackedValueDecoder::<i64>::try_new(ReadCursor::from_slice(stream)).unwrap();
    assert!(dec.total_values() == n);
    let mut out = vec![0i64; n];
    let (a, b) = out.split_at_mut(split);
    dec.read(a).unwrap();
    dec.read(b).unwrap();
    out
}

#[test]
fn c10_delta_binary_packed__values_and_split_reads__nat() {
    // value sequences with different delta patterns (constant, alternating signs, wide, wrapping)
    let mut seqs: Vec<Vec<i64>> = Vec::new();
    for n in [2usize, 3, 31, 32, 33, 34, 65, 129, 140] {
        seqs.push((0..n as i64).collect());
        seqs.push((0..n as i64).map(|i| if i % 2 == 0 { i * 1000 } else { -i * 7 }).collect());
        seqs.push((0..n as i64).map(|i| i.wrapping_mul(0x0123_4567_89ab_cdef)).collect());
        seqs.push(vec![42; n]);
    }
    seqs.push(vec![i64::MAX, i64::MIN, 0, -1, i64::MAX]);
    let mut checked = 0usize;
    for values in &seqs {
        let stream = encode(values);
        let n = values.len();
        for split in 0..=n {
            let got = decode_split(&stream, n, split);
            assert!(&got == values, "{n} values, read as {split} + {}: decoded {:?}... expected {:?}...", n - split, &got[..got.len().min(8)], &values[..values.len().min(8)]);
            checked += 1;
        }
    }
    assert!(checked > 1000);
}

include!("/verif/build/kani-gen/pq_delta.playback.rs");
