// C02 U6 (bounded stand-in, native; NOT a proof): filter pushdown through an aggregate is an equivalence.
// `FilterPushdown` rewrites heap-allocated plan trees (Vec / Box / BTreeSet / bind context): out of reach of Verus and
// CBMC.  The real rule is executed on every member of a stated finite family and BOTH plans are evaluated by a small
// reference interpreter written from the SQL definition of GROUP BY with grouping sets:
//   plan     Filter(p) -> Aggregate(GROUP BY <grouping sets> over (in.a, in.b), no aggregate functions) -> leaf(in)
//   sets     every non-empty family of subsets of {a, b}  (15 families: plain GROUP BY, ROLLUP, CUBE, GROUPING SETS ...)
//   p        g.a = 1 | g.b = 1 | g.a = 1 AND g.b = 1 | g.a = g.b | g.a = 1 OR g.b = 2
//   tables   four small instances of in(a, b) incl. the empty table and NULLs
// Specification: a grouping set yields one row per distinct value combination of ITS columns, the other group columns
// being NULL (the empty grouping set yields exactly one row, also on an empty input); Filter keeps the rows whose
// predicate is TRUE.  The optimized plan must return the same multiset of group rows as the original plan.
// The leaf is a `NoRows` node standing for the scan of `in` (the rule does not look inside leaves).
use std::collections::{BTreeMap, BTreeSet};

use super::*;
use crate::arrays::datatype::DataType;
use crate::arrays::scalar::ScalarValue;
use crate::expr::comparison_expr::ComparisonOperator;
use crate::expr::conjunction_expr::ConjunctionOperator;

//@fn optimizer/filter_pushdown/mod.rs FilterPushdown::{optimize, pushdown_aggregate, pushdown_filter, stop_pushdown, pushdown_comparison_join, pushdown_cross_join, pushdown_arbitrary_join}

type Row = BTreeMap<(usize, usize), Option<i64>>;

#[derive(Clone, Copy, PartialEq, Eq, Debug)]
enum V {
    Null,
    Int(i64),
    Bool(bool),
}

fn eval(e: &Expression, row: &Row) -> V {
    match e {
        Expression::Column(c) => match row.get(&(c.reference.table_scope.table_idx, c.reference.column)) {
            Some(Some(v)) => V::Int(*v),
            Some(None) => V::Null,
            None => panic!("plan references a column that is not in scope: {e}"),
        },
        Expression::Literal(l) => match &l.0 {
            ScalarValue::Null => V::Null,
            ScalarValue::Boolean(b) => V::Bool(*b),
            ScalarValue::Int32(v) => V::Int(*v as i64),
            ScalarValue::Int64(v) => V::Int(*v),
            other => panic!("unexpected literal {other:?}"),
        },
        Expression::Cast(c) => eval(&c.expr, row),
        Expression::Comparison(c) => match (eval(&c.left, row), eval(&c.right, row)) {
            (V::Int(a), V::Int(b)) => V::Bool(match c.op {
                ComparisonOperator::Eq => a == b,
                ComparisonOperator::NotEq => a != b,
                ComparisonOperator::Lt => a < b,
                ComparisonOperator::LtEq => a <= b,
                ComparisonOperator::Gt => a > b,
                ComparisonOperator::GtEq => a >= b,
                _ => panic!("unexpected operator"),
            }),
            _ => V::Null,
        },
        Expression::Conjunction(c) => {
            let dominant = c.op == ConjunctionOperator::Or;
            let (mut hit, mut any_null) = (false, false);
            for child in &c.expressions {
                match eval(child, row) {
                    V::Bool(b) if b == dominant => hit = true,
                    V::Bool(_) => (),
                    _ => any_null = true,
                }
            }
            if hit {
                V::Bool(dominant)
            } else if any_null {
                V::Null
            } else {
                V::Bool(!dominant)
            }
        }
        other => panic!("expression outside the interpreted fragment: {other}"),
    }
}

fn run(plan: &LogicalOperator, t_in: TableRef, table: &[(Option<i64>, Option<i64>)]) -> Vec<Row> {
    match plan {
        LogicalOperator::NoRows(_) => table
            .iter()
            .map(|(a, b)| Row::from([((t_in.table_idx, 0), *a), ((t_in.table_idx, 1), *b)]))
            .collect(),
        LogicalOperator::Filter(f) => run(&f.children[0], t_in, table).into_iter().filter(|r| eval(&f.node.filter, r) == V::Bool(true)).collect(),
        LogicalOperator::Aggregate(a) => {
            let input = run(&a.children[0], t_in, table);
            let g = a.node.group_table.expect("group table").table_idx;
            let mut out = Vec::new();
            for set in a.node.grouping_sets.as_ref().expect("grouping sets") {
                let mut keys: BTreeSet<Vec<Option<i64>>> = BTreeSet::new();
                for r in &input {
                    keys.insert(
                        a.node
                            .group_exprs
                            .iter()
                            .enumerate()
                            .map(|(i, e)| if set.contains(&i) { match eval(e, r) { V::Int(v) => Some(v), _ => None } } else { None })
                            .collect(),
                    );
                }
                if set.is_empty() && keys.is_empty() {
                    keys.insert(vec![None; a.node.group_exprs.len()]);
                }
                for k in keys {
                    out.push(k.into_iter().enumerate().map(|(i, v)| ((g, i), v)).collect());
                }
            }
            out
        }
        other => panic!("plan operator outside the interpreted fragment: {other:?}"),
    }
}

fn leaf(t: TableRef) -> LogicalOperator {
    LogicalOperator::NoRows(Node {
        node: LogicalNoRows { table_refs: vec![t] },
        location: LocationRequirement::Any,
        children: Vec::new(),
        estimated_cardinality: StatisticsValue::Unknown,
    })
}

#[test]
fn c02_filter_pushdown_aggregate__same_groups__nat() {
    let subsets: [Vec<usize>; 4] = [vec![], vec![0], vec![1], vec![0, 1]];
    let tables: [Vec<(Option<i64>, Option<i64>)>; 4] = [
        vec![],
        vec![(Some(1), Some(1)), (Some(1), Some(2)), (Some(2), Some(1))],
        vec![(Some(2), Some(2)), (None, Some(1)), (Some(1), None)],
        vec![(Some(1), Some(1)), (Some(1), Some(1)), (Some(3), Some(2)), (None, None)],
    ];
    let mut cases = 0usize;
    let mut pushed = 0usize;
    for family in 1..16u32 {
        let sets: Vec<BTreeSet<usize>> = (0..4).filter(|i| family & (1 << i) != 0).map(|i| subsets[i].iter().copied().collect()).collect();
        for pred in 0..5 {
            let mut bind_context = BindContext::new_for_root();
            let t_in = bind_context.new_ephemeral_table_with_columns([DataType::int32(), DataType::int32()], ["a", "b"]).unwrap();
            let t_group = bind_context.new_ephemeral_table_with_columns([DataType::int32(), DataType::int32()], ["a", "b"]).unwrap();
            let t_agg = bind_context.new_ephemeral_table().unwrap();
            let ga = || expr::column((t_group, 0), DataType::int32());
            let gb = || expr::column((t_group, 1), DataType::int32());
            let p: Expression = match pred {
                0 => expr::eq(ga(), expr::lit(1)).unwrap().into(),
                1 => expr::eq(gb(), expr::lit(1)).unwrap().into(),
                2 => expr::and([expr::eq(ga(), expr::lit(1)).unwrap().into(), expr::eq(gb(), expr::lit(1)).unwrap().into()]).unwrap().into(),
                3 => expr::eq(ga(), gb()).unwrap().into(),
                _ => expr::or([expr::eq(ga(), expr::lit(1)).unwrap().into(), expr::eq(gb(), expr::lit(2)).unwrap().into()]).unwrap().into(),
            };
            let build = || {
                let agg = LogicalOperator::Aggregate(Node {
                    node: LogicalAggregate {
                        aggregates_table: t_agg,
                        aggregates: Vec::new(),
                        group_table: Some(t_group),
                        group_exprs: vec![expr::column((t_in, 0), DataType::int32()), expr::column((t_in, 1), DataType::int32())],
                        grouping_sets: Some(sets.clone()),
                        grouping_functions_table: None,
                        grouping_functions: Vec::new(),
                    },
                    location: LocationRequirement::Any,
                    children: vec![leaf(t_in)],
                    estimated_cardinality: StatisticsValue::Unknown,
                });
                LogicalOperator::Filter(Node {
                    node: LogicalFilter { filter: p.clone() },
                    location: LocationRequirement::Any,
                    children: vec![agg],
                    estimated_cardinality: StatisticsValue::Unknown,
                })
            };
            let original = build();
            let optimized = FilterPushdown::default().optimize(&mut bind_context, build()).unwrap();
            if !matches!(optimized, LogicalOperator::Filter(_)) {
                pushed += 1;
            }
            for table in &tables {
                let mut want = run(&original, t_in, table);
                let mut got = run(&optimized, t_in, table);
                want.sort();
                got.sort();
                assert!(
                    want == got,
                    "filter pushdown changes the result: predicate `{p}` over GROUP BY with grouping sets {sets:?} on table {table:?} returns {want:?}; the optimized plan returns {got:?}"
                );
                cases += 1;
            }
        }
    }
    assert!(cases == 15 * 5 * 4);
    assert!(pushed >= 5, "the rule pushed the filter down in only {pushed} plans");
}

// ---- C02 U6b (bounded stand-in, native; NOT a proof): filter pushdown through joins is an equivalence ----
//   plan     Filter(p) -> J -> [leaf(l), leaf(r)]      l(a, b), r(a, b)
//   J        comparison join on l.a = r.a of type INNER / LEFT / RIGHT / FULL / SEMI / ANTI / MARK, comparison join on
//            l.a < r.b (INNER, LEFT), cross join, arbitrary join on (l.a = r.a OR l.b = r.b) (INNER, LEFT)
//   p        over the columns J outputs: l.a = 1 | r.b = 1 | l.a = r.b | l.b = 1 AND r.b = 1 | l.a = 1 OR r.b = 2 |
//            r.a IS NULL | l.b IS NULL | l.a + r.a = 3 ;  for the MARK join: mark | NOT mark | mark AND l.a = 1 |
//            l.a = 1 OR mark | mark IS NULL | NOT mark AND l.b = 1
//   tables   five instances of (l, r) incl. empty inputs, duplicates and NULL keys
// Specification (definition of the join types): INNER = the pairs satisfying the condition; LEFT / RIGHT / FULL add the
// unmatched rows of the preserved side(s) padded with NULLs; SEMI / ANTI = the left rows with / without a partner; MARK
// = every left row plus a boolean column (TRUE with a partner, else NULL if a comparison was NULL, else FALSE).  Filter
// keeps the rows whose predicate is TRUE.  Both plans are evaluated by the reference interpreter and must return the
// same multiset of rows over the columns of l and r.
type Tab = Vec<(Option<i64>, Option<i64>)>;

fn evalj(e: &Expression, row: &Row) -> V {
    match e {
        Expression::Column(c) => match row.get(&(c.reference.table_scope.table_idx, c.reference.column)) {
            Some(Some(v)) => {
                if c.datatype == DataType::boolean() {
                    V::Bool(*v != 0)
                } else {
                    V::Int(*v)
                }
            }
            Some(None) => V::Null,
            None => panic!("plan references a column that is not in scope: {e}"),
        },
        Expression::Negate(n) => match evalj(&n.expr, row) {
            V::Bool(b) => V::Bool(!b),
            V::Null => V::Null,
            other => panic!("NOT over {other:?}"),
        },
        Expression::Is(i) => {
            let v = evalj(&i.input, row);
            V::Bool(match i.op {
                crate::expr::is_expr::IsOperator::IsNull => v == V::Null,
                crate::expr::is_expr::IsOperator::IsNotNull => v != V::Null,
                crate::expr::is_expr::IsOperator::IsTrue => v == V::Bool(true),
                crate::expr::is_expr::IsOperator::IsFalse => v == V::Bool(false),
            })
        }
        Expression::Arith(a) => match (evalj(&a.left, row), evalj(&a.right, row)) {
            (V::Int(x), V::Int(y)) => match a.op {
                crate::expr::arith_expr::ArithOperator::Add => V::Int(x + y),
                other => panic!("arithmetic operator outside the interpreted fragment: {other:?}"),
            },
            _ => V::Null,
        },
        Expression::Cast(c) => evalj(&c.expr, row),
        Expression::Comparison(c) => match (evalj(&c.left, row), evalj(&c.right, row)) {
            (V::Int(a), V::Int(b)) => V::Bool(match c.op {
                ComparisonOperator::Eq => a == b,
                ComparisonOperator::NotEq => a != b,
                ComparisonOperator::Lt => a < b,
                ComparisonOperator::LtEq => a <= b,
                ComparisonOperator::Gt => a > b,
                ComparisonOperator::GtEq => a >= b,
                _ => panic!("unexpected operator"),
            }),
            (V::Bool(a), V::Bool(b)) if c.op == ComparisonOperator::Eq => V::Bool(a == b),
            _ => V::Null,
        },
        Expression::Conjunction(c) => {
            let dominant = c.op == ConjunctionOperator::Or;
            let (mut hit, mut any_null) = (false, false);
            for child in &c.expressions {
                match evalj(child, row) {
                    V::Bool(b) if b == dominant => hit = true,
                    V::Bool(_) => (),
                    _ => any_null = true,
                }
            }
            if hit {
                V::Bool(dominant)
            } else if any_null {
                V::Null
            } else {
                V::Bool(!dominant)
            }
        }
        Expression::Literal(_) => eval(e, row),
        other => panic!("expression outside the interpreted fragment: {other}"),
    }
}

/// the columns a plan outputs: (table, column)
fn out_cols(plan: &LogicalOperator) -> Vec<(usize, usize)> {
    match plan {
        LogicalOperator::NoRows(n) => n.node.table_refs.iter().flat_map(|t| [(t.table_idx, 0), (t.table_idx, 1)]).collect(),
        LogicalOperator::Filter(f) => out_cols(&f.children[0]),
        LogicalOperator::CrossJoin(j) => [out_cols(&j.children[0]), out_cols(&j.children[1])].concat(),
        LogicalOperator::ComparisonJoin(j) => join_cols(j.node.join_type, &j.children),
        LogicalOperator::ArbitraryJoin(j) => join_cols(j.node.join_type, &j.children),
        other => panic!("plan operator outside the interpreted fragment: {other:?}"),
    }
}

fn join_cols(jt: JoinType, children: &[LogicalOperator]) -> Vec<(usize, usize)> {
    let l = out_cols(&children[0]);
    match jt {
        JoinType::LeftSemi | JoinType::LeftAnti => l,
        JoinType::LeftMark { table_ref } => [l, vec![(table_ref.table_idx, 0)]].concat(),
        _ => [l, out_cols(&children[1])].concat(),
    }
}

fn join_rows(jt: JoinType, children: &[LogicalOperator], tabs: &BTreeMap<usize, Tab>, cond: &dyn Fn(&Row) -> V) -> Vec<Row> {
    let left = runj(&children[0], tabs);
    let right = runj(&children[1], tabs);
    let lcols = out_cols(&children[0]);
    let rcols = out_cols(&children[1]);
    let merged = |l: &Row, r: &Row| -> Row { l.iter().chain(r.iter()).map(|(k, v)| (*k, *v)).collect() };
    let pad = |row: &Row, cols: &[(usize, usize)]| -> Row { row.iter().map(|(k, v)| (*k, *v)).chain(cols.iter().map(|c| (*c, None))).collect() };
    let mut out = Vec::new();
    let mut right_matched = vec![false; right.len()];
    for l in &left {
        let mut matched = false;
        let mut saw_null = false;
        for (ri, r) in right.iter().enumerate() {
            let m = merged(l, r);
            match cond(&m) {
                V::Bool(true) => {
                    matched = true;
                    right_matched[ri] = true;
                    if matches!(jt, JoinType::Inner | JoinType::Left | JoinType::Right | JoinType::Full) {
                        out.push(m);
                    }
                }
                V::Null => saw_null = true,
                _ => (),
            }
        }
        match jt {
            JoinType::Left | JoinType::Full if !matched => out.push(pad(l, &rcols)),
            JoinType::LeftSemi if matched => out.push(l.clone()),
            JoinType::LeftAnti if !matched => out.push(l.clone()),
            JoinType::LeftMark { table_ref } => {
                let mark = if matched { Some(1) } else if saw_null { None } else { Some(0) };
                let mut row = l.clone();
                row.insert((table_ref.table_idx, 0), mark);
                out.push(row);
            }
            _ => (),
        }
    }
    if matches!(jt, JoinType::Right | JoinType::Full) {
        for (ri, r) in right.iter().enumerate() {
            if !right_matched[ri] {
                out.push(pad(r, &lcols));
            }
        }
    }
    out
}

fn runj(plan: &LogicalOperator, tabs: &BTreeMap<usize, Tab>) -> Vec<Row> {
    match plan {
        LogicalOperator::NoRows(n) => {
            let t = n.node.table_refs[0].table_idx;
            tabs[&t].iter().map(|(a, b)| Row::from([((t, 0), *a), ((t, 1), *b)])).collect()
        }
        LogicalOperator::Filter(f) => runj(&f.children[0], tabs).into_iter().filter(|r| evalj(&f.node.filter, r) == V::Bool(true)).collect(),
        LogicalOperator::CrossJoin(j) => join_rows(JoinType::Inner, &j.children, tabs, &|_| V::Bool(true)),
        LogicalOperator::ComparisonJoin(j) => join_rows(j.node.join_type, &j.children, tabs, &|row| {
            let mut any_null = false;
            for c in &j.node.conditions {
                let e = Expression::Comparison(crate::expr::comparison_expr::ComparisonExpr { left: c.left.clone(), right: c.right.clone(), op: c.op });
                match evalj(&e, row) {
                    V::Bool(true) => (),
                    V::Bool(false) => return V::Bool(false),
                    _ => any_null = true,
                }
            }
            if any_null { V::Null } else { V::Bool(true) }
        }),
        LogicalOperator::ArbitraryJoin(j) => join_rows(j.node.join_type, &j.children, tabs, &|row| evalj(&j.node.condition, row)),
        other => panic!("plan operator outside the interpreted fragment: {other:?}"),
    }
}

#[test]
fn c02c06_filter_pushdown_joins__same_rows__nat() {
    use crate::logical::logical_join::{JoinCondition, LogicalArbitraryJoin};
    let s = Some;
    let instances: [(Tab, Tab); 5] = [
        (vec![], vec![(s(1), s(1))]),
        (vec![(s(1), s(1)), (s(2), s(1))], vec![]),
        (vec![(s(1), s(1)), (s(1), s(2)), (s(2), s(1)), (s(3), None)], vec![(s(1), s(1)), (s(2), s(2)), (s(2), s(1)), (s(4), s(1))]),
        (vec![(s(1), s(1)), (None, s(1)), (s(2), s(2))], vec![(None, s(1)), (s(2), None), (s(1), s(2))]),
        (vec![(s(1), s(1)), (s(1), s(1)), (s(5), s(2))], vec![(s(1), s(3)), (s(1), s(2)), (None, None)]),
    ];
    let mut cases = 0usize;
    let mut changed = 0usize;
    for join_kind in 0..12usize {
        let is_mark = join_kind == 6;
        let npreds = if is_mark { 6 } else { 8 };
        for pred in 0..npreds {
            let mut bind_context = BindContext::new_for_root();
            let tl = bind_context.new_ephemeral_table_with_columns([DataType::int32(), DataType::int32()], ["a", "b"]).unwrap();
            let tr = bind_context.new_ephemeral_table_with_columns([DataType::int32(), DataType::int32()], ["a", "b"]).unwrap();
            let tm = bind_context.new_ephemeral_table_with_columns([DataType::boolean()], ["mark"]).unwrap();
            let la = || expr::column((tl, 0), DataType::int32());
            let lb = || expr::column((tl, 1), DataType::int32());
            let ra = || expr::column((tr, 0), DataType::int32());
            let rb = || expr::column((tr, 1), DataType::int32());
            let mark = || expr::column((tm, 0), DataType::boolean());
            let not = |e: Expression| -> Expression { expr::negate(crate::expr::negate_expr::NegateOperator::Not, e).unwrap().into() };
            let is_null = |e: Expression| -> Expression {
                Expression::Is(crate::expr::is_expr::IsExpr { op: crate::expr::is_expr::IsOperator::IsNull, input: Box::new(e) })
            };
            let eq1 = |e: Expression, v: i32| -> Expression { expr::eq(e, expr::lit(v)).unwrap().into() };
            // joins that only output the left side: predicates over l only
            let left_only = matches!(join_kind, 4 | 5);
            let p: Expression = if is_mark {
                match pred {
                    0 => mark(),
                    1 => not(mark()),
                    2 => expr::and([mark(), eq1(la(), 1)]).unwrap().into(),
                    3 => expr::or([eq1(la(), 1), mark()]).unwrap().into(),
                    4 => is_null(mark()),
                    _ => expr::and([not(mark()), eq1(lb(), 1)]).unwrap().into(),
                }
            } else if left_only {
                match pred {
                    0 => eq1(la(), 1),
                    1 => eq1(lb(), 1),
                    2 => expr::eq(la(), lb()).unwrap().into(),
                    3 => expr::and([eq1(lb(), 1), eq1(la(), 1)]).unwrap().into(),
                    4 => expr::or([eq1(la(), 1), eq1(lb(), 2)]).unwrap().into(),
                    5 => is_null(la()),
                    6 => is_null(lb()),
                    _ => expr::eq(expr::add(la(), lb()).unwrap(), expr::lit(3)).unwrap().into(),
                }
            } else {
                match pred {
                    0 => eq1(la(), 1),
                    1 => eq1(rb(), 1),
                    2 => expr::eq(la(), rb()).unwrap().into(),
                    3 => expr::and([eq1(lb(), 1), eq1(rb(), 1)]).unwrap().into(),
                    4 => expr::or([eq1(la(), 1), eq1(rb(), 2)]).unwrap().into(),
                    5 => is_null(ra()),
                    6 => is_null(lb()),
                    _ => expr::eq(expr::add(la(), ra()).unwrap(), expr::lit(3)).unwrap().into(),
                }
            };
            let node = |children: Vec<LogicalOperator>| -> LogicalOperator {
                let cmp = |jt: JoinType, left: Expression, right: Expression, op: ComparisonOperator, children: Vec<LogicalOperator>| {
                    LogicalOperator::ComparisonJoin(Node {
                        node: LogicalComparisonJoin { join_type: jt, conditions: vec![JoinCondition { left: Box::new(left), right: Box::new(right), op }] },
                        location: LocationRequirement::Any,
                        children,
                        estimated_cardinality: StatisticsValue::Unknown,
                    })
                };
                let arb = |jt: JoinType, children: Vec<LogicalOperator>| {
                    LogicalOperator::ArbitraryJoin(Node {
                        node: LogicalArbitraryJoin {
                            join_type: jt,
                            condition: expr::or([expr::eq(la(), ra()).unwrap().into(), expr::eq(lb(), rb()).unwrap().into()]).unwrap().into(),
                        },
                        location: LocationRequirement::Any,
                        children,
                        estimated_cardinality: StatisticsValue::Unknown,
                    })
                };
                match join_kind {
                    0 => cmp(JoinType::Inner, la(), ra(), ComparisonOperator::Eq, children),
                    1 => cmp(JoinType::Left, la(), ra(), ComparisonOperator::Eq, children),
                    2 => cmp(JoinType::Right, la(), ra(), ComparisonOperator::Eq, children),
                    3 => cmp(JoinType::Full, la(), ra(), ComparisonOperator::Eq, children),
                    4 => cmp(JoinType::LeftSemi, la(), ra(), ComparisonOperator::Eq, children),
                    5 => cmp(JoinType::LeftAnti, la(), ra(), ComparisonOperator::Eq, children),
                    6 => cmp(JoinType::LeftMark { table_ref: tm }, la(), ra(), ComparisonOperator::Eq, children),
                    7 => cmp(JoinType::Inner, la(), rb(), ComparisonOperator::Lt, children),
                    8 => cmp(JoinType::Left, la(), rb(), ComparisonOperator::Lt, children),
                    9 => LogicalOperator::CrossJoin(Node { node: LogicalCrossJoin, location: LocationRequirement::Any, children, estimated_cardinality: StatisticsValue::Unknown }),
                    10 => arb(JoinType::Inner, children),
                    _ => arb(JoinType::Left, children),
                }
            };
            let build = || {
                LogicalOperator::Filter(Node {
                    node: LogicalFilter { filter: p.clone() },
                    location: LocationRequirement::Any,
                    children: vec![node(vec![leaf(tl), leaf(tr)])],
                    estimated_cardinality: StatisticsValue::Unknown,
                })
            };
            let original = build();
            let optimized = match FilterPushdown::default().optimize(&mut bind_context, build()) {
                Ok(p) => p,
                Err(e) => panic!("filter pushdown failed on join kind {join_kind}, predicate `{p}`: {}", e.to_string().lines().next().unwrap_or("")),
            };
            if format!("{optimized:?}") != format!("{original:?}") {
                changed += 1;
            }
            for (l, r) in &instances {
                let tabs: BTreeMap<usize, Tab> = BTreeMap::from([(tl.table_idx, l.clone()), (tr.table_idx, r.clone())]);
                let keep = |rows: Vec<Row>| -> Vec<Row> {
                    let mut v: Vec<Row> = rows.into_iter().map(|r| r.into_iter().filter(|((t, _), _)| *t == tl.table_idx || *t == tr.table_idx).collect()).collect();
                    v.sort();
                    v
                };
                let want = keep(runj(&original, &tabs));
                let got = keep(runj(&optimized, &tabs));
                assert!(
                    want == got,
                    "filter pushdown through a join changes the result: predicate `{p}` above join kind {join_kind} ({}) on l = {l:?}, r = {r:?} returns {} rows {want:?}; the optimized plan returns {} rows {got:?}",
                    match &original { LogicalOperator::Filter(f) => match &f.children[0] { LogicalOperator::ComparisonJoin(j) => format!("{:?} comparison join", j.node.join_type), LogicalOperator::ArbitraryJoin(j) => format!("{:?} arbitrary join", j.node.join_type), _ => "cross join".to_string() }, _ => String::new() },
                    want.len(), got.len()
                );
                cases += 1;
            }
        }
    }
    assert!(cases == (11 * 8 + 6) * 5);
    assert!(changed >= 30, "the rule rewrote only {changed} plans");
}

include!("/verif/build/kani-gen/filter_pushdown.playback.rs");
